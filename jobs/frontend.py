"""L4: public entry points per slice against the backend-ops interface contract."""
from lib.vf import Job

EC = "src/erasurecode.c"
HELP = "src/erasurecode_helpers.c"
POST = "src/erasurecode_postprocessing.c"
PRE = "src/erasurecode_preprocessing.c"
CUT = ["liberasurecode_init", "liberasurecode_exit", "liberasurecode_backend_instance_get_by_desc"]
A_FE = ["backend operations are the backend-ops interface contract (DESIGN.md §2.3) in executable form; the built-in backends are proved against the same statements by the rs.* / xor.* / isal.* obligations",
        "crc32 (zlib) and liberasurecode_crc32_alt are uninterpreted functions of (length, bytes) in front-end proofs",
        "getenv returns NULL or a NUL-terminated string"]
FE_SRC = [EC, HELP, POST, PRE]
FE_H = ["harness/stub_env.c", "harness/stub_ctor.c"]


def fe_replay(mode):
    def args(inp, case, fail):
        k, m, w, ln = case["k"], case["m"], case["w"], case["len"]
        be = {16: 6, 32: 3, 8: 6}[w]
        if be == 3:
            return None   # the slice stands for a flat-XOR-like word size; no real table of this shape
        data = inp.get("in_data") or []
        hx = "".join("%02x" % (int(b) & 0xff) for b in data[:ln]) or "00"
        if mode == "encode":
            return ["encode", be, k, m, m, ln, inp.get("in_ct", 1), 1 if (inp.get("g_live", 1) and inp.get("in_desc") == inp.get("g_inst_idesc", inp.get("in_desc"))) else 0,
                    int(bool(inp.get("in_null_orig", 0))), int(bool(inp.get("in_null_ed", 0))), int(bool(inp.get("in_null_ep", 0))), int(bool(inp.get("in_null_flen", 0))), hx]
        return None
    return {"src": ["harness/replay_fe.c"], "full_lib": True, "args": args}


def slices(tier):
    """(k, m, w, len): len classes around multiples of the alignment a = k*w/8"""
    out = []
    shapes = [(1, 1, 16), (2, 1, 16), (3, 2, 16), (2, 2, 32), (5, 3, 8)] if tier == "quick" else \
             [(1, 1, 16), (2, 1, 16), (3, 2, 16), (2, 2, 32), (5, 3, 8), (4, 4, 16), (3, 3, 32), (5, 4, 16), (1, 3, 8), (6, 2, 8)]
    for (k, m, w) in shapes:
        a = k * w // 8
        lens = sorted({0, 1, a - 1, a, a + 1, 2 * a + 3}) if tier == "thorough" else sorted({0, 1, a + 1, 2 * a + 3} if (k, m) != (3, 2) else {0, 1, a - 1, a, a + 1, 2 * a + 3})
        for ln in lens:
            if ln < 0:
                continue
            bs = ((ln + a - 1) // a) * a // k
            if bs <= 64:
                out.append((k, m, w, ln))
    return out


def jobs(tier, seed):
    J = []
    sl = slices(tier)
    bound = "slices (k,m,w,len): %d of them, k<=6, payload <= 64 bytes; contents, arguments, faults symbolic inside a slice" % len(sl)
    for (k, m, w, ln) in sl:
        tag = "%d_%d_w%d_len%d" % (k, m, w, ln)
        J.append(Job("fe.encode@" + tag, group="fe.encode", props=["C01", "C07", "C08", "C10", "C13", "C15", "C16", "C17"], layer="L4", strength="B", bound=bound,
                     title="liberasurecode_encode (+cleanup): refusals, fragments == serializer byte for byte, fragment_len, input untouched, nothing leaked, backend failure => error",
                     functions=["liberasurecode_encode", "liberasurecode_encode_cleanup", "prepare_fragments_for_encode", "finalize_fragments_after_encode",
                                "add_fragment_metadata", "set_checksum", "alloc_fragment_buffer", "get_aligned_data_size", "get_fragment_size", "get_fragment_ptr_array_from_data", "alloc_zeroed_buffer"],
                     replaced=["liberasurecode_backend_instance_get_by_desc (registry contract)", "ops->encode/get_backend_metadata_size/get_encode_offset (interface contract)", "crc32, liberasurecode_crc32_alt (uninterpreted)", "getenv"],
                     repo_src=FE_SRC, remove_bodies=CUT, replay=fe_replay("encode"), harness=["harness/fe_encode.c"] + FE_H, defines={"K": k, "M": m, "W": w, "LEN": ln},
                     unwind=150, leak=True, case={"k": k, "m": m, "w": w, "len": ln},
                     expect=["C07/C01/C10: every byte of every fragment", "ops.encode.requires", "C13: NULL argument"], assumptions=A_FE, timeout=900))
    DEC_FN = ["liberasurecode_decode", "liberasurecode_decode_cleanup", "is_invalid_fragment_header", "fragments_to_string", "get_fragment_partition",
              "prepare_fragments_for_decode", "get_data_ptr_array_from_fragments", "add_fragment_metadata", "is_invalid_fragment", "liberasurecode_get_fragment_metadata",
              "is_invalid_fragment_metadata", "liberasurecode_verify_fragment_metadata", "alloc_fragment_buffer", "convert_list_to_bitmap", "get_fragment_idx", "get_orig_data_size", "get_fragment_payload_size"]
    if tier == "quick":
        dsl = [(1, 1, 16, 3), (2, 1, 16, 5), (3, 2, 16, 7)]
    else:
        dsl = [x for x in sl if x[0] + x[1] <= 5] + [(4, 2, 16, 9)]
    for (k, m, w, ln) in dsl:
        tag = "%d_%d_w%d_len%d" % (k, m, w, ln)
        n = k + m
        nfs = sorted({-1, 0, k - 1, k, n, n + 1}) if tier == "thorough" or n <= 3 else sorted({k - 1, k, n - 1, n + 1})
        for nfv in nfs:
          for var, defs, props, fns in (("decode", {}, ["C01", "C02", "C09", "C13", "C15", "C16", "C17"], DEC_FN),
                                      ("decode.damage", {"DAMAGE": 1}, ["C20", "C02", "C15", "C16"], DEC_FN),
                                      ("reconstruct", {"RECON": 1}, ["C03", "C02", "C09", "C13", "C15", "C16", "C17"],
                                       ["liberasurecode_reconstruct_fragment"] + DEC_FN[2:])):
            if var == "decode.damage" and nfv < k:
                continue
            J.append(Job("fe.%s@%s_nf%d" % (var, tag, nfv), group="fe." + var, props=props, layer="L4", strength="B",
                         bound=bound + "; num_fragments in %s per slice (list <= k+m+1 entries)" % nfs,
                         title={"decode": "liberasurecode_decode: refusals; success => exactly the original bytes/length; within tolerance => success for any order/duplication/alignment/checksum type/force flag; inputs untouched; nothing leaked; backend failure => error",
                                "decode.damage": "liberasurecode_decode with forced metadata checks and a symbolic subset of payload-damaged fragments: result computed only from valid fragments",
                                "reconstruct": "liberasurecode_reconstruct_fragment: refusals incl. destination outside 0..k+m-1; success => byte-identical to encode's fragment; within tolerance => success; inputs untouched; nothing leaked"}[var],
                         functions=fns,
                         replaced=["liberasurecode_backend_instance_get_by_desc (registry contract)", "ops->decode/reconstruct/get_backend_metadata_size/is_compatible_with (interface contract)", "crc32, liberasurecode_crc32_alt (uninterpreted)", "getenv"],
                         repo_src=[EC, HELP], remove_bodies=CUT + ["is_invalid_fragment_header", "is_invalid_fragment"], harness=["harness/fe_decode.c"] + FE_H, defines=dict({"K": k, "M": m, "W": w, "LEN": ln, "NUMFRAG": "(%d)" % nfv}, **defs),
                         unwind=180, leak=True, case={"k": k, "m": m, "w": w, "len": ln, "num_fragments": nfv}, object_bits=10,
                         loop_bounds=[(r"num_fragments", k + m + 3), (r"missing_idxs\[\w+\]\s*>", k + m + 2), (r"i < k;", k + 1), (r"i < m;", m + 1)],
                         expect=["C15: the caller's fragments are not written"], assumptions=A_FE, timeout=1800, mem_gb=10, weight=(k + m) ** 3))
    # ---- enforcing queries for the internal contracts, and the 'encoded => valid' lemma
    csl = [(2, 1, 16, 5), (3, 2, 16, 7)] if tier == "quick" else [(1, 1, 16, 3), (2, 1, 16, 5), (3, 2, 16, 7), (2, 2, 32, 9), (4, 2, 16, 9)]
    for (k, m, w, ln) in csl:
        tag = "%d_%d_w%d_len%d" % (k, m, w, ln)
        n = k + m
        for mode, fn in ((1, "fragments_to_string"), (2, "get_fragment_partition"), (3, "prepare_fragments_for_decode")):
            for nfv in (sorted({0, k - 1, k, n, n + 1}) if mode != 3 else sorted({k, n, n + 1})):
                J.append(Job("fe.contract.%s@%s_nf%d" % (fn, tag, nfv), group="fe.contract." + fn, props=["C01", "C02", "C03", "C15", "C16", "C20"] + (["C09"] if mode == 2 else []),
                             layer="L4", strength="B", bound=bound + "; num_fragments per case",
                             title="%s: real body == contract text of fe_contracts.h on the same symbolic pre-state (return code, outputs, ownership, inputs untouched)" % fn,
                             functions=[fn, "get_fragment_idx", "get_fragment_payload_size", "get_orig_data_size", "get_aligned_buffer16", "alloc_fragment_buffer", "convert_list_to_bitmap"],
                             replaced=["malloc/posix_memalign/memcpy/memset (CBMC models)"],
                             repo_src=[PRE, HELP], harness=["harness/fe_contract.c", "harness/stub_env.c"],
                             defines={"K": k, "M": m, "W": w, "LEN": ln, "MODE": mode, "NUMFRAG": "(%d)" % nfv}, unwind=180,
                             loop_bounds=[(r"num_fragments", n + 3), (r"num_data", k + 1)], leak=(mode == 1), object_bits=10,
                             case={"k": k, "m": m, "w": w, "len": ln, "num_fragments": nfv}, expect=[fn + ":"], timeout=1200, mem_gb=8))
    for (k, m, w, ln) in [(2, 1, 16, 5), (3, 2, 16, 7), (2, 2, 32, 9)]:
        tag = "%d_%d_w%d_len%d" % (k, m, w, ln)
        J.append(Job("fe.lemma.encoded_valid@" + tag, group="fe.lemma.encoded_valid", props=["C09", "C10", "C12", "C01"], layer="L5", strength="B", bound=bound,
                     title="lemma: any fragment satisfying encode's postcondition is accepted by the real header check, the real metadata query (no mismatch, either CRC variant) and the real per-fragment validation",
                     functions=["is_invalid_fragment_header", "liberasurecode_get_fragment_metadata", "is_invalid_fragment", "is_invalid_fragment_metadata", "liberasurecode_verify_fragment_metadata"],
                     replaced=["registry lookup (contract)", "ops->is_compatible_with (interface contract)", "crc32 / crc32_alt (uninterpreted)"],
                     repo_src=[EC, HELP], remove_bodies=CUT, harness=["harness/fe_contract.c"] + FE_H, defines={"K": k, "M": m, "W": w, "LEN": ln, "MODE": 4, "NUMFRAG": "0"},
                     unwind=180, case={"k": k, "m": m, "w": w, "len": ln}, expect=["C12: every fragment an instance has just encoded"], assumptions=A_FE))
    # ---- size queries (C08): case split over the divisor
    ks = [1, 2, 3, 5, 7, 10, 16, 31, 32] if tier == "quick" else list(range(1, 33))
    for k in ks:
        for w in (8, 16, 32):
            J.append(Job("fe.sizes@k%d_w%d" % (k, w), group="fe.sizes", props=["C08", "C13"], layer="L4", strength="P#" if tier == "thorough" else "B",
                         bound="" if tier == "thorough" else "quick tier: k in %s x w in {8,16,32}; thorough: every k in 1..32" % ks,
                         title="size queries == ceil(len/(k*w/8))*(k*w/8) etc., data_len symbolic in [0,2^20]; unknown descriptor => negative",
                         functions=["liberasurecode_get_aligned_data_size", "liberasurecode_get_minimum_encode_size", "liberasurecode_get_fragment_size", "get_aligned_data_size"],
                         replaced=["registry lookup (contract)", "ops->element_size / get_backend_metadata_size (interface contract)"],
                         repo_src=[EC, HELP], remove_bodies=CUT, harness=["harness/fe_misc.c"] + FE_H, defines={"MODE": 1, "K": k, "W": w},
                         unwind=10, case={"k": k, "w": w}, expect=["C08: aligned data size"], timeout=600))
    J.append(Job("fe.fragments_needed", props=["C06", "C13", "C17"], layer="L4", strength="Pinf",
                 title="liberasurecode_fragments_needed: refusals; the backend's return code is propagated unchanged; backend not called on invalid arguments",
                 functions=["liberasurecode_fragments_needed"], replaced=["registry lookup (contract)", "ops->fragments_needed (interface contract, any return code)"],
                 repo_src=[EC, HELP], remove_bodies=CUT, harness=["harness/fe_misc.c"] + FE_H, defines={"MODE": 2}, unwind=10, expect=["C06/C17: the backend's answer"]))
    nl = 4 if tier == "thorough" else 3
    J.append(Job("reg.step", props=["C14"], layer="L4", strength="B", bound="registry with <= %d live instances (arbitrary well-formed pre-state, arbitrary counter: history length unbounded by induction)" % nl,
                 title="registry step: register/alloc_desc/get_by_desc/unregister from an arbitrary well-formed registry and counter (INT_MAX, negatives): fresh positive descriptor, lookup exact, dead after unregister, others untouched",
                 functions=["liberasurecode_backend_instance_register", "liberasurecode_backend_alloc_desc", "liberasurecode_backend_instance_get_by_desc", "liberasurecode_backend_instance_unregister"],
                 replaced=["pthread rwlock (succeeds; sequential)"], repo_src=[EC], remove_bodies=["liberasurecode_init", "liberasurecode_exit"],
                 harness=["harness/fe_misc.c"] + FE_H, defines={"MODE": 3, "NL": nl}, unwind=nl + 4, expect=["C14: a new descriptor is positive", "C14: a descriptor is dead after unregister"]))
    J.append(Job("reg.create_destroy", props=["C13", "C14", "C16", "C17"], layer="L4", strength="B", bound="registry with <= %d other live instances; shape box k,m in [-1,33]" % nl,
                 title="liberasurecode_instance_create/_destroy: refusals (NULL args, backend id, k<1, m<0, k+m>32), init/loader failure => error with nothing left behind or leaked, success => fresh live descriptor; destroy: exit+dlclose once, dead afterwards, double destroy refused",
                 functions=["liberasurecode_instance_create", "liberasurecode_instance_destroy", "liberasurecode_backend_open", "liberasurecode_backend_close",
                            "liberasurecode_backend_instance_register", "liberasurecode_backend_alloc_desc", "liberasurecode_backend_instance_get_by_desc", "liberasurecode_backend_instance_unregister"],
                 replaced=["ops->init / exit (interface contract; init may fail)", "dlopen/dlclose/dlerror (assumed loader contract; dlopen may fail)", "pthread rwlock"],
                 repo_src=[EC], remove_bodies=["liberasurecode_init", "liberasurecode_exit"], harness=["harness/fe_misc.c"] + FE_H,
                 defines={"MODE": 4, "NL": nl}, unwind=12, loop_bounds=[(r"SLIST_FOREACH|for \(;;\)|SLIST_REMOVE", nl + 3)], leak=True, mem_gb=16, expect=["C13: NULL args, unknown backend id", "C14/C17: a failed create"]))
    return J

"""L4 loop-free predicates on the fragment header: acceptance, metadata query, validation, writers, layout."""
from lib.vf import Job

EC = "src/erasurecode.c"
HELP = "src/erasurecode_helpers.c"
POST = "src/erasurecode_postprocessing.c"
PRE = "src/erasurecode_preprocessing.c"
CRC = "src/utils/chksum/crc32.c"
A_ZLIB = "zlib crc32(0,buf,len) is the standard reflected CRC-32 (external library, assumed); its value enters as a ghost result whose argument range is asserted"
A_ALT = "liberasurecode_crc32_alt enters caller proofs as a ghost result with asserted arguments; its own contract (== historical sign-extending CRC-32) is obligations crc.step / crc.short"
CUT = ["liberasurecode_init", "liberasurecode_exit"]


def hdr_replay(mode):
    """concretise a ghost-CRC counterexample: header bytes + relation of stored CRCs to the ghost CRC values"""
    def args(inp, case, fail):
        h = inp.get("in_hdr")
        if not isinstance(h, list) or len(h) != 80:
            return None
        hx = "".join("%02x" % (int(b) & 0xff) for b in h)
        def le(o): return sum((int(h[o + i]) & 0xff) << (8 * i) for i in range(4))
        def be(o): return sum((int(h[o + 3 - i]) & 0xff) << (8 * i) for i in range(4))
        order = 0 if le(59) == 0x0b0c5ecc else 1
        rd = be if order else le
        def rel(stored, a, b):
            if a is not None and stored == (int(a) & 0xffffffff): return "std"
            if b is not None and stored == (int(b) & 0xffffffff): return "leg"
            return "none"
        mrel = rel(rd(67), inp.get("g_mstd", inp.get("g_std")), inp.get("g_mleg", inp.get("g_leg")))
        prel = rel(rd(21), inp.get("g_pstd"), inp.get("g_pleg"))
        return [mode, hx, mrel, prel]
    return {"src": ["harness/replay_hdr.c"], "full_lib": True, "args": args}


def val_replay(mode):
    def args(inp, case, fail):
        fr = inp.get("in_frag")
        if not isinstance(fr, list):
            return None
        n = 1 if mode == 1 else max(1, min(int(inp.get("in_n", 1)), len(fr)))
        out = [mode, inp["in_k"], inp["in_m"]]
        def le(h, o): return sum((int(h[o + i]) & 0xff) << (8 * i) for i in range(4))
        def be(h, o): return sum((int(h[o + 3 - i]) & 0xff) << (8 * i) for i in range(4))
        def lst(v, f): return (int(v[f]) & 0xffffffff) if isinstance(v, list) and len(v) > f else None
        same = 1 if (int(fr[0][54]) & 0xff) == int(inp.get("in_id", -1)) else 0
        out += [same, n]
        for f in range(n):
            h = fr[f]
            if not isinstance(h, list) or len(h) != 80:
                return None
            rd = be if le(h, 59) != 0x0b0c5ecc else le
            def rel(st, a, b): return "std" if st == a else ("leg" if st == b else "none")
            out += ["".join("%02x" % (int(b) & 0xff) for b in h),
                    rel(rd(h, 67), lst(inp.get("g_mstd"), f), lst(inp.get("g_mleg"), f)),
                    rel(rd(h, 21), lst(inp.get("g_pstd"), f), lst(inp.get("g_pleg"), f))]
        return out
    return {"src": ["harness/replay_validate.c"], "full_lib": True, "args": args}


def jobs(tier, seed):
    J = []
    J.append(Job("hdr.is_invalid_fragment_header", props=["C09", "C11", "C15", "C20"], layer="L4", strength="Pinf",
                 title="is_invalid_fragment_header == spec acceptance predicate on all 2^640 headers and all CRC values; header unmodified",
                 functions=["is_invalid_fragment_header"], replaced=["crc32 (zlib; ghost result, args asserted)", "liberasurecode_crc32_alt (ghost result, args asserted)"],
                 repo_src=[EC], remove_bodies=CUT, replay=hdr_replay("hdr"), harness=["harness/h_hdr_valid.c", "harness/stub_env.c", "harness/stub_ctor.c"], unwind=81,
                 expect=["C09: header accepted iff", "C09/C15: validation does not modify", "crc32.requires/C09"],
                 assumptions=[A_ZLIB, A_ALT]))
    for twin in (0, 1):
        J.append(Job("hdr.get_fragment_metadata" + (".twin" if twin else ""), props=["C11"] if twin else ["C09", "C10", "C11", "C13", "C15", "C20"],
                     layer="L4", strength="Pinf",
                     title=("liberasurecode_get_fragment_metadata on a native header and its opposite-endian twin: same fields, verdict, mismatch flag" if twin else
                            "liberasurecode_get_fragment_metadata on all 2^640 headers: bad header => -EBADHEADER, else fields decoded in the header's byte order, CRC32 mismatch flag == spec, fragment unmodified"),
                     functions=["liberasurecode_get_fragment_metadata", "get_data_ptr_from_fragment"],
                     replaced=["is_invalid_fragment_header (C09 contract)", "crc32 (zlib; ghost result, args asserted)", "liberasurecode_crc32_alt (ghost result, args asserted)"],
                     repo_src=[EC, HELP], remove_bodies=CUT + ["is_invalid_fragment_header"], replay=hdr_replay("twin" if twin else "meta"),
                     harness=["harness/h_metadata.c", "harness/stub_env.c", "harness/stub_ctor.c"], defines={"TWIN": 1} if twin else {},
                     unwind=81, expect=["C11:"] if twin else ["C10: mismatch reported iff", "C09: an unacceptable header", "C11: checksum type"],
                     assumptions=[A_ZLIB, A_ALT]))
    for mode, fn, nf in ((1, "is_invalid_fragment", 1), (2, "liberasurecode_verify_stripe_metadata", 4 if tier == "thorough" else 3)):
        J.append(Job("val." + fn, props=["C12", "C13", "C15"] + (["C09", "C10", "C20"] if mode == 1 else []), layer="L4",
                     strength="Pinf" if mode == 1 else "B", bound="" if mode == 1 else "stripe length num_fragments <= %d (count only; every header byte, k, m, ids, versions symbolic)" % nf,
                     title=("is_invalid_fragment == reference verdict (header order/acceptance, library version, index range, backend id, backend version, payload checksum) for every header, instance and descriptor" if mode == 1 else
                            "liberasurecode_verify_stripe_metadata: negative iff a supplied fragment fails index/backend-id/backend-version or carries a mismatch flag; code of the first failing one"),
                     functions=[fn, "is_invalid_fragment_metadata", "liberasurecode_verify_fragment_metadata"] + (["liberasurecode_get_fragment_metadata", "is_invalid_fragment_header", "get_libec_version"] if mode == 1 else []),
                     replaced=["liberasurecode_backend_instance_get_by_desc (registry contract)", "ops->is_compatible_with (uninterpreted predicate of the version)",
                               "crc32 / liberasurecode_crc32_alt (ghost results keyed by (pointer,length), args asserted)"],
                     repo_src=[EC, HELP], remove_bodies=CUT + ["liberasurecode_backend_instance_get_by_desc"], replay=val_replay(mode),
                     harness=["harness/h_validate.c", "harness/stub_env.c", "harness/stub_ctor.c"], defines={"MODE": mode, "NF": nf},
                     unwind=81, expect=["C12:"], assumptions=[A_ZLIB, A_ALT]))
    J.append(Job("wr.add_fragment_metadata", props=["C07", "C10", "C03"], layer="L4", strength="Pinf",
                 title="add_fragment_metadata + set_* helpers + set_checksum: all 80 header bytes == independent serialiser (LE fields at golden offsets, payload/metadata CRC by the env switch over exactly the right ranges), for every argument, env value and prior header",
                 functions=["add_fragment_metadata", "set_checksum", "set_libec_version", "set_fragment_idx", "set_orig_data_size", "set_fragment_payload_size",
                            "set_backend_id", "set_backend_version", "set_fragment_backend_metadata_size", "is_fragment", "get_data_ptr_from_fragment"],
                 replaced=["crc32 / liberasurecode_crc32_alt (ghost results, args asserted)", "getenv (NULL or any string of <= 2 chars)", "ops->get_backend_metadata_size (ghost value)"],
                 repo_src=[POST, HELP], harness=["harness/h_writer.c", "harness/stub_env.c"], defines={"MODE": 1}, unwind=81,
                 expect=["C07/C10: every header byte", "crc32.requires/C10", "getenv.requires"], assumptions=[A_ZLIB, A_ALT, "getenv returns NULL or a NUL-terminated string (only its first two characters are inspected)"]))
    J.append(Job("wr.layout_getters", props=["C07", "C15"], layer="L4", strength="Pinf",
                 title="sizeof/offsetof of the real header structs == golden layout; every getter of erasurecode_helpers.c == LE read at the golden offset (or -1 when the magic is not native); header untouched",
                 functions=["get_fragment_idx", "get_fragment_payload_size", "get_fragment_backend_metadata_size", "get_orig_data_size", "get_libec_version",
                            "get_backend_version", "get_backend_id", "get_data_ptr_from_fragment", "get_fragment_ptr_from_data", "get_fragment_ptr_from_data_novalidate"],
                 repo_src=[HELP], harness=["harness/h_writer.c", "harness/stub_env.c"], defines={"MODE": 2}, unwind=81, expect=["C07: sizeof(fragment header) == 80", "getter: index"]))
    J.append(Job("wr.allocators", props=["C07", "C16"], layer="L4", strength="Pinf",
                 title="alloc_fragment_buffer / alloc_zeroed_buffer / alloc_and_set_buffer: fresh buffer of exactly the size, contents as specified (magic at 59, everything else zero), size symbolic",
                 functions=["alloc_fragment_buffer", "get_aligned_buffer16", "alloc_zeroed_buffer", "alloc_and_set_buffer", "free_fragment_buffer", "check_and_free_buffer"],
                 replaced=["posix_memalign / malloc / memset / free (CBMC library models)"],
                 repo_src=[HELP], harness=["harness/h_writer.c", "harness/stub_env.c"], defines={"MODE": 3}, leak=True, expect=["alloc_fragment_buffer.ensures/C07"]))
    return J

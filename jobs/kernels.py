"""L0/L1: field kernel, region kernels, XOR kernel."""
from lib.vf import Job

RSV = "src/builtin/rs_vand/liberasurecode_rs_vand.c"
GAL = "src/builtin/rs_vand/rs_galois.c"
XOR = "src/builtin/xor_codes/xor_code.c"
CRC = "src/utils/chksum/crc32.c"

A_GF = ("rs_galois_mult/inverse appear in caller proofs as uninterpreted functions GFMUL/GFINV; that they equal the "
        "GF(2^16)/0x1100b spec product is established by the exhaustive native stand-in gf.native (tables are out of CBMC's reach)")


def kreplay(kernel, repo_src):
    def args(inp, case, fail):
        if "in_bs" not in inp:
            return None
        return [kernel, inp["in_bs"], inp.get("g_t", inp.get("g_w", 0)), inp.get("in_mult", 0), inp.get("in_xor", 0)]
    return {"src": ["harness/replay_kernels.c"], "repo_src": [RSV, GAL, XOR], "args": args, "libs": []}


def jobs(tier, seed):
    J = []
    J.append(Job("rsv.region_multiply", props=["C01", "C02", "C03", "C04", "C15"], layer="L1", strength="Pinf",
                 title="region_multiply: word g_w of to_buf becomes (xor? old : 0) ^ GFMUL(from word, mult), frame = to_buf[0..blocksize)",
                 functions=["region_multiply"], replaced=["rs_galois_mult (contract stub, uninterpreted product)"],
                 repo_src=[RSV], replay=kreplay("region_multiply", [RSV]), harness=["harness/k_region_multiply.c", "harness/stub_gf_uf.c"],
                 enforce=("region_multiply", "c_region_multiply"), loops=["loops/region_multiply.json"],
                 expect=["c_region_multiply.postcondition", "loop_invariant_step"],
                 assumptions=[A_GF], timeout=600))
    J.append(Job("rsv.region_multiply@bs0", props=["C01", "C04", "C15"], layer="L1", strength="Pinf",
                 title="region_multiply with blocksize 0 (empty input): no access at all",
                 functions=["region_multiply"], replaced=["rs_galois_mult (contract stub, uninterpreted product)"],
                 repo_src=[RSV], harness=["harness/k_region_multiply.c", "harness/stub_gf_uf.c"], defines={"BS0": 1},
                 enforce=("region_multiply", "c_region_multiply"), unwind=1, assumptions=[A_GF]))
    for z in (0, 1):
        J.append(Job("rsv.region_xor" + ("@bs0" if z else ""), props=["C01", "C02", "C03", "C04", "C15"], layer="L1", strength="Pinf",
                     title="region_xor: to_buf[g_t] ^= from_buf[g_t] for every byte, any blocksize up to INT_MAX, frame = to_buf[0..blocksize)",
                     functions=["region_xor"], repo_src=[RSV], replay=kreplay("region_xor", [RSV]), harness=["harness/k_region_xor.c"],
                     defines={"BS0": 1} if z else {}, unwind=1 if z else None,
                     enforce=("region_xor", "c_region_xor"), loops=None if z else ["loops/region_xor.json"],
                     expect=[] if z else ["c_region_xor.postcondition", "loop_invariant_step"]))
        for fl in ("portable", "sse2"):
            J.append(Job("xor.xor_bufs_and_store.%s%s" % (fl, "@bs0" if z else ""), props=["C01", "C02", "C03", "C05", "C15"],
                         layer="L1", strength="Pinf",
                         title="xor_bufs_and_store (%s build): buf2[g_t] ^= buf1[g_t] for every byte, any blocksize incl. non-multiples of 16" % fl,
                         functions=["xor_bufs_and_store"], repo_src=[XOR], replay=kreplay("xor_bufs_and_store", [XOR]), harness=["harness/k_xor_bufs.c"],
                         defines=dict(({"BS0": 1} if z else {}), **({"INTEL_SSE2": 1} if fl == "sse2" else {})),
                         cflags=["-msse2"] if fl == "sse2" else [], unwind=1 if z else None,
                         enforce=("xor_bufs_and_store", "c_xor_bufs_and_store"),
                         loops=None if z else ["loops/xor_bufs_%d.json" % (16 if fl == "sse2" else 8)],
                         expect=[] if z else ["c_xor_bufs_and_store.postcondition", "loop_invariant_step"]))
    J.append(Job("xor.fast_memcpy", props=["C01", "C02", "C03", "C05", "C15"], layer="L1", strength="Pinf",
                 title="fast_memcpy: dst[g_t] == src[g_t], frame dst[0..size)", functions=["fast_memcpy"], replay=kreplay("fast_memcpy", [XOR]),
                 repo_src=[XOR], harness=["harness/k_fast_memcpy.c"], enforce=("fast_memcpy", "c_fast_memcpy"),
                 expect=["c_fast_memcpy.postcondition"], assumptions=["libc memcpy meets its ISO C contract (CBMC built-in model)"]))
    J.append(Job("rsv.region_dot_product", props=["C01", "C02", "C03", "C04", "C15"], layer="L1", strength="Pinf",
                 title="region_dot_product: to_buf word == old ^ XOR_i GFAPPLY(from_i word, row[i]); num_entries symbolic in [0,32], blocksize symbolic; callees by contract",
                 functions=["region_dot_product"], replaced=["region_xor (contract)", "region_multiply (contract)"],
                 repo_src=[RSV], remove_bodies=["region_xor", "region_multiply"],
                 harness=["harness/k_region_dot_product.c", "harness/stub_region.c"],
                 unwind=34, expect=["region_dot_product.ensures", "region_multiply.requires", "region_xor.requires"],
                 assumptions=[A_GF], timeout=900))
    J.append(Job("gf.native", props=["C04", "C01", "C02", "C03"], layer="L0", strength="native", kind="native",
                 bound="exhaustive over all 2^32 operand pairs, executed natively (gcc -O2 -fopenmp) on /repo's rs_galois.c; a bounded stand-in, not a verifier proof",
                 title="rs_galois_mult/div/inverse == GF(2^16)/0x1100b shift-xor specification on the whole domain",
                 functions=["rs_galois_mult", "rs_galois_div", "rs_galois_inverse", "rs_galois_init_tables"],
                 repo_src=[GAL], harness=["harness/native_gf.c"], native={}, timeout=1200, mem_gb=2, weight=10 ** 6))
    nmax = 5 if tier == "thorough" else 3
    J.append(Job("crc.step", props=["C10", "C09", "C20"], layer="L1", strength="Pinf",
                 title="liberasurecode_crc32_alt: one step from an arbitrary register == historical sign-extending CRC-32 step (2^40 cases)",
                 functions=["liberasurecode_crc32_alt"], repo_src=[CRC], harness=["harness/k_crc.c"], defines={"MODE": 1}, unwind=10,
                 expect=["C10: one step"]))
    J.append(Job("crc.short", props=["C10", "C09", "C20"], layer="L1", strength="B", bound="buffer length <= %d bytes (all contents)" % nmax,
                 title="liberasurecode_crc32_alt == bit-serial historical CRC-32 for every buffer of length <= %d" % nmax,
                 functions=["liberasurecode_crc32_alt"], repo_src=[CRC], harness=["harness/k_crc.c"], defines={"MODE": 2, "NMAXLEN": nmax}, unwind=10,
                 expect=["C10: liberasurecode_crc32_alt == bit-serial"], timeout=1200))
    J.append(Job("crc.safety", props=["C10", "C09", "C15"], layer="L1", strength="Pinf",
                 title="liberasurecode_crc32_alt: reads exactly buf[0..size), writes nothing, terminates, for symbolic size (loop contract)",
                 functions=["liberasurecode_crc32_alt"], repo_src=[CRC], harness=["harness/k_crc.c"], defines={"MODE": 3},
                 enforce=("liberasurecode_crc32_alt", "c_crc32_alt"), loops=["loops/crc32_alt.json"], expect=["loop_invariant_step", "loop_decreases"],
                 assumptions=["for buffers longer than the crc.short bound, 'crc32_alt == fold of the proved step over bytes 0..n-1' is the definitional composition of crc.step and crc.safety (not mechanised)"]))
    J.append(Job("gf.refcount", props=["C14", "C16"], layer="L0", strength="Pinf",
                 title="rs_galois_init_tables/deinit_tables step contracts from an arbitrary reference count: one reference per call, tables allocated once, never reallocated or written while in use, freed exactly by the last deinit, deinit without users harmless (the first init's table-filling loop: gf.native)",
                 functions=["rs_galois_init_tables", "rs_galois_deinit_tables"], repo_src=[GAL], harness=["harness/k_gf_refcount.c"], defines={"static": ""},
                 leak=True, unwind=2, cbmc=["--arrays-uf-always"], mem_gb=16, expect=["C14: init takes exactly one reference", "C14: destroying one instance leaves the tables"], timeout=900,
                 assumptions=["rs_galois.c is compiled with -Dstatic= for this obligation only, so that the harness can put the (otherwise file-local) reference counter init_counter into an arbitrary state; nothing else in that file is static", "the first rs_galois_init_tables call (count 0 -> 1, table-filling loop) is covered natively by gf.native, not by the verifier"]))
    return J

"""L2: Reed-Solomon Vandermonde code level (generator, encode, decode matrices, planner)."""
import random
from lib.vf import Job

RSV = "src/builtin/rs_vand/liberasurecode_rs_vand.c"
GAL = "src/builtin/rs_vand/rs_galois.c"
A_GFSPEC = ("rs_galois_mult/inverse/div are replaced by their contract '== GF(2^16)/0x1100b spec (shift-xor)' with the operand-range "
            "requires asserted at each call; the contract itself is established by the exhaustive native stand-in gf.native")


def shapes_all():
    return [(k, m) for k in range(1, 32) for m in range(1, 32) if k + m <= 32]


def quick_shapes():
    s = [(k, m) for (k, m) in shapes_all() if k + m <= 8]
    s += [(10, 4), (12, 4), (1, 31)]
    return s


def jobs(tier, seed):
    J = []
    # thorough: every shape with k+m <= 14 and the boundary / common large shapes; the remaining large shapes cost 5-20 min
    # and 14 GB each (measured) and are left to an explicit  VERIF_ALL_SHAPES=1 ./check C04 --tier thorough
    import os
    if tier != "thorough":
        shapes = quick_shapes()
    elif os.environ.get("VERIF_ALL_SHAPES") == "1":
        shapes = shapes_all()
    else:
        rs_ = random.Random(seed * 131 + 7)
        big = [(k, m) for (k, m) in shapes_all() if k + m > 14]
        shapes = [(k, m) for (k, m) in shapes_all() if k + m <= 14] + sorted(set([(16, 16), (1, 31), (31, 1), (20, 12), (10, 6), (12, 4), (16, 4), (17, 3)] + rs_.sample(big, 6)))
    for (k, m) in shapes:
        J.append(Job("rs.matrix@%d_%d" % (k, m), group="rs.matrix", props=["C04", "C01", "C03"], layer="L2", strength="P#" if len(shapes) == 496 else "B",
                     bound="%d of the 496 shapes (quick: all with k+m<=8 plus (10,4),(12,4),(1,31); thorough: all with k+m<=14 plus boundary and sampled large shapes; VERIF_ALL_SHAPES=1 runs all 496)" % len(shapes),
                     title="make_systematic_matrix(k,m): identity block, all-ones first parity row, every parity coefficient == L_j(r)/L_j(k)",
                     functions=["make_systematic_matrix", "create_non_systematic_vand_matrix", "get_non_zero_diagonal",
                                "swap_matrix_rows", "col_mult", "col_mult_and_add"],
                     replaced=["rs_galois_mult (contract: == gf16 spec)", "rs_galois_inverse (contract: == gf16 spec)"],
                     repo_src=[RSV], harness=["harness/rs_matrix.c", "harness/stub_gf_spec.c"], defines={"K": k, "M": m},
                     unwind=34, cbmc=["--max-field-sensitivity-array-size", "1100"], mem_gb=4 if k + m <= 12 else 14, case={"k": k, "m": m}, expect=["closed form", "rs_galois_mult.requires"],
                     assumptions=[A_GFSPEC], timeout=3600 if tier == "thorough" else 1200, weight=(k + m) ** 3))
    enc_shapes = [(k, m) for (k, m) in shapes if k * m <= 48] if tier == "thorough" else shapes
    for (k, m) in enc_shapes:
        J.append(Job("rs.encode@%d_%d" % (k, m), group="rs.encode", props=["C04", "C01", "C03", "C15"], layer="L2", strength="B",
                     bound="%d of the 496 shapes (quick: k+m<=8 plus (10,4),(12,4),(1,31); thorough: all shapes with k*m<=48; larger shapes exceed the time budget)" % len(enc_shapes),
                     title="liberasurecode_rs_vand_encode: parity_r word == XOR_j G[k+r][j]*data_j word for every word, blocksize (even), generator and data; data unchanged",
                     functions=["liberasurecode_rs_vand_encode"], replaced=["region_dot_product (contract stub)", "memset (CBMC model)"],
                     repo_src=[RSV], remove_bodies=["region_dot_product"], harness=["harness/k_rs_encode.c", "harness/stub_region_dot.c"],
                     defines={"K": k, "M": m}, case={"k": k, "m": m},
                     unwind=34, unwindset={"harness.0": 1026}, expect=["liberasurecode_rs_vand_encode.ensures", "region_dot_product.requires"],
                     timeout=1200, mem_gb=4 if k + m <= 12 else 10, weight=(k + m) ** 2))
    # ---- adapter (src/backends/rs_vand) and its fragments-needed planner
    RSB = "src/backends/rs_vand/liberasurecode_rs_vand.c"
    J.append(Job("rs.adapter", props=["C01", "C02", "C03", "C08", "C12", "C13", "C14", "C16", "C17"], layer="L3", strength="Pinf",
                 title="liberasurecode_rs_vand adapter, (k,m) symbolic in [-1,33]^2, any subset of code-library symbols absent: init refuses k<1 / m<1 / incomplete library with nothing left behind, else w=16, one table reference; encode/decode/reconstruct forward their arguments unchanged and return 0 or the code's value; exit releases everything once; accepts exactly backend version 1.0.0",
                 functions=["liberasurecode_rs_vand_init", "liberasurecode_rs_vand_exit", "liberasurecode_rs_vand_encode", "liberasurecode_rs_vand_decode", "liberasurecode_rs_vand_reconstruct",
                            "liberasurecode_rs_vand_element_size", "liberasurecode_rs_vand_is_compatible_with"],
                 replaced=["dlsym (assumed loader contract; any symbol may be absent)", "make_systematic_matrix / init / deinit / free_systematic_matrix / code-level encode, decode, reconstruct (contracts; enforced by rs.matrix, rs.encode, rs.decode, rs.reconstruct)"],
                 repo_src=[RSB], harness=["harness/rs_backend.c", "harness/stub_env.c"], defines={"MODE": 1}, export_static=True, unwind=40, leak=True,
                 expect=["C13/C17: an unsupported shape", "pass-through: data, parity and blocksize", "C12: liberasurecode_rs_vand accepts exactly"]))
    pshapes = ([(k, m) for (k, m) in shapes_all() if k + m <= 12] + [(10, 4), (12, 4), (4, 8), (31, 1), (1, 31), (16, 4)]) if tier == "thorough" else [(k, m) for (k, m) in shapes_all() if k + m <= 6] + [(10, 4), (12, 4), (4, 8), (31, 1), (1, 31)]
    pshapes = sorted(set(pshapes))
    for (k, m) in pshapes:
        J.append(Job("rs.planner@%d_%d" % (k, m), group="rs.planner", props=["C06", "C15"], layer="L3", strength="B",
                     bound="request and exclude lists of up to min(k+m,10) entries each (5 when k+m>16) (any order, duplicates); %d of the 496 shapes (thorough: all with k+m<=12 plus boundary shapes)" % len(pshapes),
                     title="liberasurecode_rs_vand_min_fragments, shape (%d,%d): symbolic request/exclude lists (any order, duplicates, up to min(k+m,10) entries each (5 when k+m>16)): succeeds iff >= k fragments remain; exactly k increasing in-range indexes disjoint from both lists, -1 terminated; lists untouched" % (k, m),
                     functions=["liberasurecode_rs_vand_min_fragments", "convert_list_to_bitmap", "liberasurecode_rs_vand_init", "liberasurecode_rs_vand_exit"],
                     replaced=["dlsym (loader contract)", "make_systematic_matrix etc. (contracts)"],
                     repo_src=[RSB], harness=["harness/rs_backend.c", "harness/stub_env.c"], defines={"MODE": 2, "K": k, "M": m, "LL": min(k + m, 10) if k + m <= 16 else 5}, export_static=True,
                     unwind=40, leak=True, case={"k": k, "m": m}, expect=["C06: the Reed-Solomon query succeeds exactly when"],
                     assumptions=["sufficiency of any k fragments for Reed-Solomon is the MDS property of the closed-form generator (C04; algebra assumed, non-singularity checked per enumerated erasure set by rs.decode)"],
                     timeout=900, mem_gb=4, weight=(k + m) ** 2))
    # ---- decode / reconstruct per (shape, erasure set): the B part of the RS claims (DESIGN.md 2.5)
    nmax = 7 if tier == "thorough" else 6
    dshapes = [(k, m) for (k, m) in shapes_all() if k + m <= nmax]
    rnd = random.Random(seed * 31 + 5)
    for mode, fn, calls in ((1, "decode", 64), (2, "reconstruct", 48)):
        for (k, m) in dshapes:
            n = k + m
            per = max(1, calls // (k * (1 if mode == 1 else max(1, m // 2 + 1))))
            for lo in range(0, 1 << n, per):
                hi = min((1 << n) - 1, lo + per - 1)
                J.append(_dec_job(fn, mode, k, m, lo, hi, "P#", "", tier))
        # sampled erasure sets of larger shapes (B): maximal sets |E| == m with a mix of data and parity
        for (k, m) in ([(10, 4), (4, 8), (6, 6)] if tier == "quick" else [(10, 4), (4, 8), (6, 6), (12, 4), (8, 8)]):
            n = k + m
            for s_ in range(2 if tier == "quick" else 4):
                e = rnd.sample(range(n), m)
                mask = sum(1 << i for i in e)
                J.append(_dec_job(fn, mode, k, m, mask, mask, "B", "sampled erasure sets (VERIF_SEED) of shapes with k+m > %d on ONE generic data vector (pairwise distinct non-zero words) instead of a basis; complete for every shape with k+m <= %d" % (nmax, nmax), tier))
    for (k, m) in ([(10, 4), (4, 8), (6, 6)] if tier == "quick" else [(10, 4), (4, 8), (6, 6), (12, 4), (8, 8)]):
        J.append(Job("rs.gtable@%d_%d" % (k, m), group="rs.gtable", props=["C01", "C02", "C03", "C04"], layer="L2", strength="P#",
                     title="frozen generator table of shape (%d,%d) (used as constants by the sampled decode/reconstruct obligations) == closed form L_j(r)/L_j(k), every entry" % (k, m),
                     functions=[], replaced=[], repo_src=[], harness=["harness/rs_decode.c"], defines={"K": k, "M": m, "MODE": 3}, unwind=34,
                     case={"k": k, "m": m}, expect=["generator table == closed form"], mem_gb=8, timeout=1800, weight=k * k * (k + m)))
    J += isal_jobs(tier, seed)
    return J


def _dec_job(fn, mode, k, m, lo, hi, strength, bound, tier):
    n = k + m
    big = strength != "P#"
    return Job("rs.%s@%d_%d.e=%d..%d" % (fn, k, m, lo, hi), group="rs." + fn + ("" if strength == "P#" else ".sampled"),
               props=(["C01", "C02", "C04", "C15"] if mode == 1 else ["C03", "C02", "C15"]), layer="L2", strength=strength, bound=bound,
               title=("liberasurecode_rs_vand_%s, shape (%d,%d), erasure sets with mask in [%d,%d]: <= m erasures => exact %s on the k scaled unit data vectors (linear map: exact on every data vector), blocksize symbolic, survivors untouched; > m => refused" % (
                      fn, k, m, lo, hi, "data and parity" if mode == 1 else "destination (every missing destination)")),
               functions=["liberasurecode_rs_vand_" + fn, "create_decoding_matrix", "gaussj_inversion", "get_first_k_available", "get_non_zero_diagonal",
                          "swap_matrix_rows", "row_mult", "row_mult_and_add"],
               replaced=["make_systematic_matrix (contract: closed form, enforced by rs.matrix)", "rs_galois_mult/inverse (contract: == gf16 spec)",
                         "region_dot_product (contract at the ghost word, enforced by rsv.region_dot_product; product interpreted)"],
               repo_src=[RSV], remove_bodies=["region_dot_product"], harness=["harness/rs_decode.c", "harness/stub_gf_spec.c"],
               defines=dict({"K": k, "M": m, "MODE": mode, "MLO": "%du" % lo, "MHI": "%du" % hi}, **({"GENERIC": 1, "GTABLE": 1} if big else {})), case={"k": k, "m": m, "masks": [lo, hi]},
               unwind=34, loop_bounds=[(r"mask <= MHI", hi - lo + 2)], object_bits=12,
               expect=["C01/C04: any k of the k+m" if mode == 1 else "C03: reconstruct succeeds", "rs_galois_mult.requires"],
               assumptions=[A_GFSPEC, "ghost-cell buffer model: each stripe buffer is one 2-byte object holding its 16-bit word at the ghost index; decode/reconstruct touch buffer contents only through region_dot_product (any other access fails a bounds obligation on the cell)",
                            "algebra not mechanised: decode/reconstruct of a fixed erasure set is a GF(2^16)-linear map of the data (fixed coefficients, region_dot_product contract), so exactness on the k scaled unit vectors implies exactness for all data; the statement holds for every word of a longer buffer because the contract is word-wise"],
               timeout=1800, mem_gb=12 if big else 6, weight=k ** 3 * (hi - lo + 1))

def isal_jobs(tier, seed):
    """C19: ISA-L adapters against assumed (reference) contracts of the five primitives"""
    J = []
    IC, IV, IY = "src/backends/isa-l/isa_l_common.c", "src/backends/isa-l/isa_l_rs_vand.c", "src/backends/isa-l/isa_l_rs_cauchy.c"
    FN = ["isa_l_common_init", "isa_l_exit", "isa_l_encode", "isa_l_decode", "isa_l_reconstruct", "isa_l_get_decode_matrix", "get_inverse_rows",
          "mult_and_xor_row", "get_num_missing_elements", "isa_l_min_fragments", "isa_l_element_size", "convert_list_to_bitmap"]
    A = ["ISA-L primitives gf_mul, gf_gen_rs_matrix/gf_gen_cauchy1_matrix, gf_invert_matrix, ec_init_tables, ec_encode_data behave as the reference implementations in harness/isal.c (GF(2^8)/0x11d; the property's own premise); dlsym returns the same-named function or NULL",
         "ghost-cell buffer model (one byte per stripe buffer at the ghost index, blocksize symbolic); data = k scaled unit vectors, exactness for all data by GF(2^8)-linearity of a fixed erasure set's decode map (algebra not mechanised)"]
    nmax = 7 if tier == "thorough" else 6
    shapes = [(k, m) for k in range(1, nmax) for m in range(1, nmax) if k + m <= nmax]
    rnd = random.Random(seed * 77 + 3)
    for gen in ("vand", "cauchy"):
        dd0 = {"CAUCHY": 1} if gen == "cauchy" else {}
        src = [IC, IY if gen == "cauchy" else IV]
        common = dict(props=["C19"], layer="L3", repo_src=src, harness=["harness/isal.c", "harness/stub_env.c"], export_static=True, unwind=40, leak=True,
                      loop_bounds=[(r"mask <= MHI", 70), (r"c < k \* rows", 32 * 32 + 2), (r"i < n \* n", 32 * 32 + 2)],
                      functions=FN, replaced=["the five ISA-L primitives (assumed contracts, reference form)", "dlsym (loader contract)"], assumptions=A, object_bits=12)
        for (k, m) in [(3, 2), (10, 4)]:
            J.append(Job("isal.init.%s@%d_%d" % (gen, k, m), group="isal.init", strength="Pinf", case={"k": k, "m": m, "gen": gen},
                         title="isa_l_rs_%s init/exit (%d,%d): any subset of libisal symbols absent, any caller w: refused with nothing left behind or a usable descriptor; element size 8; accepts exactly its own version" % (gen, k, m),
                         defines=dict(dd0, K=k, M=m, MODE=0), expect=["C13/C17: an incomplete library"], **common))
        pl = [(3, 2), (4, 2), (10, 4)] if tier == "quick" else [(k, m) for (k, m) in shapes] + [(10, 4), (12, 4), (8, 8)]
        for (k, m) in pl:
            J.append(Job("isal.planner.%s@%d_%d" % (gen, k, m), group="isal.planner", strength="B", bound="lists of up to 6 entries each; %d shapes" % len(pl), case={"k": k, "m": m, "gen": gen},
                         title="isa_l_min_fragments (%s, %d,%d): symbolic request/exclude lists: succeeds iff >= k fragments remain; exactly k increasing in-range indexes disjoint from both lists" % (gen, k, m),
                         defines=dict(dd0, K=k, M=m, MODE=4, LL=min(6, k + m)), expect=["C19/C06: the query succeeds exactly when"], timeout=900, **common))
        for (k, m) in shapes + ([(10, 4)] if tier == "quick" else [(10, 4), (12, 4), (8, 4)]):
            J.append(Job("isal.encode.%s@%d_%d" % (gen, k, m), group="isal.encode", strength="P#" if k + m <= nmax else "B", bound="" if k + m <= nmax else "sampled larger shapes", case={"k": k, "m": m, "gen": gen},
                         title="isa_l_encode (%s, %d,%d): parity == generator x data on the k scaled unit vectors, data untouched, blocksize symbolic" % (gen, k, m),
                         defines=dict(dd0, K=k, M=m, MODE=1), expect=["C19/C01: encode writes parity"], **common))
        for mode, fn, calls in ((2, "decode", 48), (3, "reconstruct", 32)):
            for (k, m) in shapes:
                n = k + m
                per = max(1, calls // (k * (1 if mode == 2 else max(1, m // 2 + 1))))
                for lo in range(0, 1 << n, per):
                    hi = min((1 << n) - 1, lo + per - 1)
                    if any(1 <= bin(x).count("1") <= m for x in range(lo, hi + 1)):
                        J.append(_isal_job(gen, fn, mode, k, m, lo, hi, "P#", "", common, dd0))
            for (k, m) in ([(10, 4)] if tier == "quick" else [(10, 4), (6, 5), (12, 4), (8, 8)]):
                n = k + m
                for s_ in range(2 if tier == "quick" else 4):
                    mask = sum(1 << i for i in rnd.sample(range(n), m))
                    J.append(_isal_job(gen, fn, mode, k, m, mask, mask, "B", "sampled maximal erasure sets (VERIF_SEED) of shapes with k+m > %d on one generic data vector, no injected inversion failure; complete (every erasure set of at most m fragments, every destination) for all shapes with k+m <= %d" % (nmax, nmax), common, dd0))
    return J


def _isal_job(gen, fn, mode, k, m, lo, hi, strength, bound, common, dd0):
    c = dict(common)
    return Job("isal.%s.%s@%d_%d.e=%d..%d" % (fn, gen, k, m, lo, hi), group="isal." + fn + ("" if strength == "P#" else ".sampled"), strength=strength, bound=bound,
               title="isa_l_%s (%s generator, %d,%d), erasure sets with mask in [%d,%d] and |E|<=m, inversion may be made to fail: inversion ok => exact result; inversion fails => error; survivors untouched; nothing leaked" % (fn, gen, k, m, lo, hi),
               defines=dict(dd0, K=k, M=m, MODE=mode, MLO="%du" % lo, MHI="%du" % hi, **({} if strength == "P#" else {"GENERIC": 1})), case={"k": k, "m": m, "gen": gen, "masks": [lo, hi]},
               expect=["C19: %s succeeds for every erasure set" % fn],
               timeout=1800, mem_gb=8 if strength == "P#" else 14, weight=k ** 3 * (hi - lo + 1), **c)

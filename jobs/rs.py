"""L2: Reed-Solomon Vandermonde code level (generator, encode, decode matrices, planner)."""
import random
from lib.vf import Job

RSV = "src/builtin/rs_vand/liberasurecode_rs_vand.c"
GAL = "src/builtin/rs_vand/rs_galois.c"
A_GFSPEC = ("rs_galois_mult/inverse/div are replaced by their contract '== GF(2^16)/0x1100b spec (shift-xor)' with the operand-range "
            "requires asserted at each call; the contract itself is established by the exhaustive native stand-in gf.native")


def shapes_all():
    return [(k, m) for k in range(1, 32) for m in range(1, 32) if k + m <= 32]


def quick_shapes():
    s = [(k, m) for (k, m) in shapes_all() if k + m <= 8]
    s += [(10, 4), (12, 4), (1, 31)]
    return s


def jobs(tier, seed):
    J = []
    shapes = shapes_all() if tier == "thorough" else quick_shapes()
    for (k, m) in shapes:
        J.append(Job("rs.matrix@%d_%d" % (k, m), group="rs.matrix", props=["C04", "C01", "C03"], layer="L2", strength="P#",
                     bound="" if tier == "thorough" else "quick tier runs %d of the 496 shapes (all with k+m<=8 plus (10,4),(12,4),(1,31)); the thorough tier runs all 496" % len(shapes),
                     title="make_systematic_matrix(k,m): identity block, all-ones first parity row, every parity coefficient == L_j(r)/L_j(k)",
                     functions=["make_systematic_matrix", "create_non_systematic_vand_matrix", "get_non_zero_diagonal",
                                "swap_matrix_rows", "col_mult", "col_mult_and_add"],
                     replaced=["rs_galois_mult (contract: == gf16 spec)", "rs_galois_inverse (contract: == gf16 spec)"],
                     repo_src=[RSV], harness=["harness/rs_matrix.c", "harness/stub_gf_spec.c"], defines={"K": k, "M": m},
                     unwind=34, cbmc=["--max-field-sensitivity-array-size", "1100"], mem_gb=4 if k + m <= 12 else 14, case={"k": k, "m": m}, expect=["closed form", "rs_galois_mult.requires"],
                     assumptions=[A_GFSPEC], timeout=3600 if tier == "thorough" else 1200, weight=(k + m) ** 3))
    enc_shapes = [(k, m) for (k, m) in shapes if k * m <= 48] if tier == "thorough" else shapes
    for (k, m) in enc_shapes:
        J.append(Job("rs.encode@%d_%d" % (k, m), group="rs.encode", props=["C04", "C01", "C03", "C15"], layer="L2", strength="B",
                     bound="%d of the 496 shapes (quick: k+m<=8 plus (10,4),(12,4),(1,31); thorough: all shapes with k*m<=48; larger shapes exceed the time budget)" % len(enc_shapes),
                     title="liberasurecode_rs_vand_encode: parity_r word == XOR_j G[k+r][j]*data_j word for every word, blocksize (even), generator and data; data unchanged",
                     functions=["liberasurecode_rs_vand_encode"], replaced=["region_dot_product (contract stub)", "memset (CBMC model)"],
                     repo_src=[RSV], remove_bodies=["region_dot_product"], harness=["harness/k_rs_encode.c", "harness/stub_region_dot.c"],
                     defines={"K": k, "M": m}, case={"k": k, "m": m},
                     unwind=34, unwindset={"harness.0": 1026}, expect=["liberasurecode_rs_vand_encode.ensures", "region_dot_product.requires"],
                     timeout=1200, mem_gb=4 if k + m <= 12 else 10, weight=(k + m) ** 2))
    return J

"""L2: flat-XOR codes: tables, encode, decode, reconstruct, fragments-needed planner (C05, C06, XOR parts of C01-C03)."""
import random
from lib.vf import Job

XC = "src/builtin/xor_codes/xor_code.c"
XH = "src/builtin/xor_codes/xor_hd_code.c"
FX = "src/backends/xor/flat_xor_hd.c"


def tables():
    t = [(3, 3, 3)]
    t += [(k, 5, 3) for k in range(5, 11)] + [(k, 6, 3) for k in range(6, 16)]
    t += [(k, 5, 4) for k in range(5, 11)] + [(k, 6, 4) for k in range(6, 21)]
    return t


def jobs(tier, seed):
    J = []
    J.append(Job("xor.whitelist", props=["C05", "C13"], layer="L2", strength="Pinf",
                 title="init_xor_hd_code(k,m,hd), (k,m,hd) symbolic in [-1,33]^2 x [0,7]: created exactly for the 38 supported shapes, lookups in bounds",
                 functions=["init_xor_hd_code"], repo_src=[XC, XH], harness=["harness/x_tables.c"], defines={"MODE": 1}, unwind=34,
                 expect=["C05/C13: a flat-XOR code is created exactly"]))
    for (k, m, hd) in tables():
        tag = "%d_%d_%d" % (k, m, hd)
        J.append(Job("xor.table@" + tag, group="xor.table", props=["C05"], layer="L2", strength="P#",
                     title="flat-XOR table: data-side == parity-side == golden snapshot; minimum distance >= hd (symbolic data word of weight < hd)",
                     functions=["init_xor_hd_code"], repo_src=[XC, XH], harness=["harness/x_tables.c"],
                     defines={"MODE": 2, "K": k, "M": m, "HD": hd}, case={"k": k, "m": m, "hd": hd}, unwind=34,
                     expect=["C05: minimum distance", "golden equations"]))
    KSTUB = ["xor_bufs_and_store (contract stub)", "fast_memcpy (contract stub)", "posix_memalign/malloc/free/memset (CBMC models)"]
    CODEFN = ["flat_xor_hd_init", "flat_xor_hd_exit", "init_xor_hd_code"]
    for (k, m, hd) in tables():
        tag = "%d_%d_%d" % (k, m, hd)
        common = dict(repo_src=[XC, XH, FX], remove_bodies=["xor_bufs_and_store", "fast_memcpy"],
                      harness=["harness/x_code.c", "harness/stub_xor_kernel.c", "harness/stub_env.c"], case={"k": k, "m": m, "hd": hd},
                      unwind=34, layer="L2", replaced=KSTUB)
        J.append(Job("xor.encode@" + tag, group="xor.encode", props=["C05", "C01", "C03", "C15"], strength="P#",
                     title="flat_xor_hd_encode/xor_code_encode: parity_j == XOR of the golden equation's data, any blocksize/data",
                     functions=CODEFN + ["flat_xor_hd_encode", "xor_code_encode", "is_data_in_parity"],
                     defines={"MODE": 3, "K": k, "M": m, "HD": hd, "TOL": 1}, expect=["C05: every parity fragment is exactly the XOR"], **common))
        DECFN = CODEFN + ["xor_hd_decode", "decode_one_data", "decode_two_data", "decode_three_data", "selective_encode",
                          "get_missing_data", "get_missing_parity", "index_of_connected_parity", "num_missing_data_in_parity",
                          "remove_from_missing_list", "get_failure_pattern", "is_data_in_parity", "does_parity_have_data"]
        n = k + m
        rnd = random.Random(seed * 1000003 + k * 97 + m * 13 + hd)
        # (suffix, emin, emax, e0lo, e0hi, complete?)
        variants = []
        if hd == 3:
            variants.append(("", 0, 2, -1, n - 1, True))
        elif tier == "thorough" or n <= 12:
            variants.append((".e0=-1..0", 0, 3, -1, 0, True))
            variants += [(".e0=%d" % e, 0, 3, e, e, True) for e in range(1, n)]
        else:
            variants.append(("", 0, 2, -1, n - 1, True))
            variants += [(".3of.e0=%d" % e, 3, 3, e, e, False) for e in sorted(rnd.sample(range(0, n - 2), 2))]
        if hd == 3 and m >= 3:      # 3 erasures on an hd=3 code: beyond tolerance, still admitted by the front end (<= m)
            if tier == "thorough" or n <= 10:
                variants += [(".beyond3.e0=%d" % e, 3, 3, e, e, True) for e in range(0, n - 2)]
            else:
                variants += [(".beyond3.e0=%d" % e, 3, 3, e, e, False) for e in sorted(rnd.sample(range(0, n - 2), 2))]
        for (sfx, emin, emax, lo, hi, complete) in variants:
            dd = {"K": k, "M": m, "HD": hd, "EMIN": emin, "EMAX": emax, "E0LO": lo, "E0HI": hi, "CELL": 1}
            within = "beyond" not in sfx
            for mode, fn in ((4, "decode"), (5, "reconstruct")):
                J.append(Job("xor.%s%s@%s" % (fn, sfx, tag), group="xor.%s%s" % (fn, "" if within else ".beyond3"),
                             props=(["C05", "C01", "C02"] if mode == 4 else ["C05", "C03", "C02"]) if within else ["C02"],
                             strength="P#" if complete else "B",
                             bound="" if complete else "quick tier: 3-erasure sets sampled by lowest erased index (2 of %d values, VERIF_SEED); all sets of size <= 2 complete; thorough tier enumerates every set" % (n - 2),
                             title=("flat_xor_hd_%s: all erasure sets with %d<=|E|<=%d and lowest erased index in [%d,%d], enumerated: %s" % (
                                    fn, emin, emax, lo, hi,
                                    "restored exactly (data and parity), any blocksize/data" if within else "error or exact result, never wrong bytes")),
                             functions=DECFN + ["flat_xor_hd_" + fn] + (["xor_reconstruct_one"] if mode == 5 else []),
                             defines=dict(dd, MODE=mode), loop_bounds=[(r">\\s*-1", emax + 2)], unwind=34, object_bits=16,
                             expect=["C02/C05: success implies" if mode == 4 else "C02/C03: success implies", "xor_bufs_and_store.requires"],
                             timeout=2400, mem_gb=6, weight=n * n * (emax + 1),
                             repo_src=[XC, XH, FX], remove_bodies=["xor_bufs_and_store", "fast_memcpy"],
                             harness=["harness/x_code.c", "harness/stub_xor_cell.c", "harness/stub_env.c"],
                             case={"k": k, "m": m, "hd": hd, "emin": emin, "emax": emax, "e0": [lo, hi]},
                             layer="L2", replaced=KSTUB + ["memset / posix_memalign (libc contracts at the ghost cell)"],
                             assumptions=["ghost-cell buffer model: each stripe buffer is represented by its byte at the ghost index g_t and its length by the ghost constant g_bs; sound because the code under proof touches buffer contents only through the replaced kernels (any other access fails a bounds obligation on the 1-byte cell)"]))
        if m >= 4:                  # 4..m erasures: the classifier contract decides; one symbolic set
            for mode, fn in ((4, "decode"), (5, "reconstruct")):
                J.append(Job("xor.%s.ge4@%s" % (fn, tag), group="xor.%s.ge4" % fn, props=["C02"], strength="P#",
                             title="flat_xor_hd_%s with 4..m erasures (symbolic set, classifier by contract): error or exact result, never wrong bytes" % fn,
                             functions=CODEFN + ["xor_hd_decode", "flat_xor_hd_" + fn] + (["xor_reconstruct_one", "get_missing_data", "get_missing_parity", "index_of_connected_parity", "num_missing_data_in_parity"] if mode == 5 else []),
                             defines={"K": k, "M": m, "HD": hd, "EMIN": 4, "EMAX": m, "SYMBOLIC": 1, "CELL": 1, "MODE": mode},
                             loop_bounds=[(r">\\s*-1", m + 2)], unwind=34, object_bits=16,
                             expect=["C02/C05: success implies" if mode == 4 else "C02/C03: success implies", "get_failure_pattern.requires"],
                             timeout=1800, mem_gb=8, weight=n * n,
                             repo_src=[XC, XH, FX], remove_bodies=["xor_bufs_and_store", "fast_memcpy", "get_failure_pattern"],
                             harness=["harness/x_code.c", "harness/stub_xor_cell.c", "harness/stub_xor_pattern.c", "harness/stub_env.c"],
                             case={"k": k, "m": m, "hd": hd, "emin": 4, "emax": m}, layer="L2",
                             replaced=KSTUB + ["get_failure_pattern (contract: >= 4 erasures => FAIL_PATTERN_GE_HD)"]))
    return J

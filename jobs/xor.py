"""L2: flat-XOR codes: tables, encode, decode, reconstruct, fragments-needed planner (C05, C06, XOR parts of C01-C03)."""
import random
from lib.vf import Job

XC = "src/builtin/xor_codes/xor_code.c"
XH = "src/builtin/xor_codes/xor_hd_code.c"
FX = "src/backends/xor/flat_xor_hd.c"


def tables():
    t = [(3, 3, 3)]
    t += [(k, 5, 3) for k in range(5, 11)] + [(k, 6, 3) for k in range(6, 16)]
    t += [(k, 5, 4) for k in range(5, 11)] + [(k, 6, 4) for k in range(6, 21)]
    return t


def plan_replay():
    def args(inp, case, fail):
        if "cur_len" not in inp or not isinstance(inp.get("cur_seq"), list):
            return None
        n = int(inp["cur_len"])
        return [n, int(inp["cur_nr"])] + [int(v) for v in inp["cur_seq"][:n]]
    return {"src": ["harness/x_plan.c"], "args": args, "libs": []}


def jobs(tier, seed):
    J = []
    J.append(Job("xor.whitelist", props=["C05", "C13"], layer="L2", strength="Pinf",
                 title="init_xor_hd_code(k,m,hd), (k,m,hd) symbolic in [-1,33]^2 x [0,7]: created exactly for the 38 supported shapes, lookups in bounds",
                 functions=["init_xor_hd_code"], repo_src=[XC, XH], harness=["harness/x_tables.c"], defines={"MODE": 1}, unwind=34,
                 expect=["C05/C13: a flat-XOR code is created exactly"]))
    for (k, m, hd) in tables():
        tag = "%d_%d_%d" % (k, m, hd)
        J.append(Job("xor.table@" + tag, group="xor.table", props=["C05", "C01", "C02", "C03"], layer="L2", strength="P#",
                     title="flat-XOR table: data-side == parity-side == golden snapshot; minimum distance >= hd (symbolic data word of weight < hd)",
                     functions=["init_xor_hd_code"], repo_src=[XC, XH], harness=["harness/x_tables.c"],
                     defines={"MODE": 2, "K": k, "M": m, "HD": hd}, case={"k": k, "m": m, "hd": hd}, unwind=34,
                     expect=["C05: minimum distance", "golden equations"]))
    KSTUB = ["xor_bufs_and_store (contract stub)", "fast_memcpy (contract stub)", "posix_memalign/malloc/free/memset (CBMC models)"]
    CODEFN = ["flat_xor_hd_init", "flat_xor_hd_exit", "init_xor_hd_code"]
    for (k, m, hd) in tables():
        tag = "%d_%d_%d" % (k, m, hd)
        common = dict(repo_src=[XC, XH, FX], remove_bodies=["xor_bufs_and_store", "fast_memcpy"],
                      harness=["harness/x_code.c", "harness/stub_xor_kernel.c", "harness/stub_env.c"], case={"k": k, "m": m, "hd": hd},
                      unwind=34, layer="L2", replaced=KSTUB)
        J.append(Job("xor.encode@" + tag, group="xor.encode", props=["C05", "C01", "C03", "C15"], strength="P#",
                     title="flat_xor_hd_encode/xor_code_encode: parity_j == XOR of the golden equation's data, any blocksize/data",
                     functions=CODEFN + ["flat_xor_hd_encode", "xor_code_encode", "is_data_in_parity"],
                     defines={"MODE": 3, "K": k, "M": m, "HD": hd, "TOL": 1}, expect=["C05: every parity fragment is exactly the XOR"], **common))
        DECFN = CODEFN + ["xor_hd_decode", "decode_one_data", "decode_two_data", "decode_three_data", "selective_encode",
                          "get_missing_data", "get_missing_parity", "index_of_connected_parity", "num_missing_data_in_parity",
                          "remove_from_missing_list", "get_failure_pattern", "is_data_in_parity", "does_parity_have_data"]
        n = k + m
        rnd = random.Random(seed * 1000003 + k * 97 + m * 13 + hd)
        # (suffix, emin, emax, e0lo, e0hi, complete?)
        variants = []
        if hd == 3:
            variants.append(("", 0, 2, -1, n - 1, True))
        elif n <= 12:
            variants.append((".e0=-1..0", 0, 3, -1, 0, True))
            variants += [(".e0=%d" % e, 0, 3, e, e, True) for e in range(1, n)]
        else:
            # 3-erasure sets of the large hd=4 tables: a run with lowest erased index e0 holds C(n-1-e0, 2) sets and its symbolic
            # execution time grows quadratically with that number (measured: 250 sets 27 min / 6 GB), so only the lowest indexes
            # among the highest 9 (quick: 2 of them) resp. 12 (thorough: all of them) are run; sets of size <= 2 are complete
            variants.append(("", 0, 2, -1, n - 1, True))
            es = sorted(rnd.sample(range(max(0, n - 9), n - 2), 2)) if tier != "thorough" else list(range(max(0, n - 12), n - 2))
            variants += [(".3of.e0=%d" % e, 3, 3, e, e, False) for e in es]
        if hd == 3 and m >= 3:      # 3 erasures on an hd=3 code: beyond tolerance, still admitted by the front end (<= m)
            if n <= 10:
                variants += [(".beyond3.e0=%d" % e, 3, 3, e, e, True) for e in range(0, n - 2)]
            else:
                es = sorted(rnd.sample(range(max(0, n - 9), n - 2), 2)) if tier != "thorough" else list(range(max(0, n - 12), n - 2))
                variants += [(".beyond3.e0=%d" % e, 3, 3, e, e, False) for e in es]
        for (sfx, emin, emax, lo, hi, complete) in variants:
            dd = {"K": k, "M": m, "HD": hd, "EMIN": emin, "EMAX": emax, "E0LO": lo, "E0HI": hi, "CELL": 1}
            within = "beyond" not in sfx
            for mode, fn in ((4, "decode"), (5, "reconstruct")):
                J.append(Job("xor.%s%s@%s" % (fn, sfx, tag), group="xor.%s%s" % (fn, "" if within else ".beyond3"),
                             props=(["C05", "C01", "C02", "C15"] if mode == 4 else ["C05", "C03", "C02", "C15"]) if within else ["C02", "C15"],
                             strength="P#" if complete else "B",
                             bound="" if complete else "quick tier: 3-erasure sets sampled by lowest erased index (2 of the 7 highest of its %d values, VERIF_SEED: the sets with a low lowest index are the expensive ones and run in the thorough tier only); all sets of size <= 2 complete; the thorough tier runs the 10 highest lowest-indexes; complete for every table with k+m <= 12" % (n - 2),
                             title=("flat_xor_hd_%s: all erasure sets with %d<=|E|<=%d and lowest erased index in [%d,%d], enumerated: %s" % (
                                    fn, emin, emax, lo, hi,
                                    "restored exactly (data and parity), any blocksize/data" if within else "error or exact result, never wrong bytes")),
                             functions=DECFN + ["flat_xor_hd_" + fn] + (["xor_reconstruct_one"] if mode == 5 else []),
                             defines=dict(dd, MODE=mode), loop_bounds=[(r">\\s*-1", emax + 2)], unwind=34, object_bits=16,
                             expect=["C02/C05: success implies" if mode == 4 else "C02/C03: success implies", "xor_bufs_and_store.requires"],
                             timeout=2400 if tier == "quick" else 3600, mem_gb=6 if tier == "quick" else 12, weight=n * n * (emax + 1),
                             repo_src=[XC, XH, FX], remove_bodies=["xor_bufs_and_store", "fast_memcpy"],
                             harness=["harness/x_code.c", "harness/stub_xor_cell.c", "harness/stub_env.c"],
                             case={"k": k, "m": m, "hd": hd, "emin": emin, "emax": emax, "e0": [lo, hi]},
                             layer="L2", replaced=KSTUB + ["memset / posix_memalign (libc contracts at the ghost cell)"],
                             assumptions=["ghost-cell buffer model: each stripe buffer is represented by its byte at the ghost index g_t and its length by the ghost constant g_bs; sound because the code under proof touches buffer contents only through the replaced kernels (any other access fails a bounds obligation on the 1-byte cell)"]))
        if m >= 4:                  # 4..m erasures: the classifier contract decides; one symbolic set
            for mode, fn in ((4, "decode"), (5, "reconstruct")):
                J.append(Job("xor.%s.ge4@%s" % (fn, tag), group="xor.%s.ge4" % fn, props=["C02"], strength="P#",
                             title="flat_xor_hd_%s with 4..m erasures (symbolic set, classifier by contract): error or exact result, never wrong bytes" % fn,
                             functions=CODEFN + ["xor_hd_decode", "flat_xor_hd_" + fn] + (["xor_reconstruct_one", "get_missing_data", "get_missing_parity", "index_of_connected_parity", "num_missing_data_in_parity"] if mode == 5 else []),
                             defines={"K": k, "M": m, "HD": hd, "EMIN": 4, "EMAX": m, "SYMBOLIC": 1, "CELL": 1, "MODE": mode},
                             loop_bounds=[(r">\\s*-1", m + 2)], unwind=34, object_bits=16,
                             expect=["C02/C05: success implies" if mode == 4 else "C02/C03: success implies", "get_failure_pattern.requires"],
                             timeout=1800, mem_gb=8, weight=n * n,
                             repo_src=[XC, XH, FX], remove_bodies=["xor_bufs_and_store", "fast_memcpy", "get_failure_pattern"],
                             harness=["harness/x_code.c", "harness/stub_xor_cell.c", "harness/stub_xor_pattern.c", "harness/stub_env.c"],
                             case={"k": k, "m": m, "hd": hd, "emin": 4, "emax": m}, layer="L2",
                             replaced=KSTUB + ["get_failure_pattern (contract: >= 4 erasures => FAIL_PATTERN_GE_HD)"]))
    PLANFN = ["flat_xor_hd_init", "flat_xor_hd_exit", "init_xor_hd_code", "flat_xor_hd_min_fragments", "xor_hd_fragments_needed",
              "fragments_needed_one_data", "fragments_needed_two_data", "fragments_needed_three_data", "fragments_needed_one_data_local",
              "get_failure_pattern", "get_missing_data", "get_missing_parity", "index_of_connected_parity", "num_missing_data_in_parity",
              "remove_from_missing_list", "missing_elements_bm", "is_data_in_parity", "does_parity_have_data", "data_bit_lookup"]
    for (k, m, hd) in tables():
        tag = "%d_%d_%d" % (k, m, hd)
        n = k + m
        rnd = random.Random(seed * 7919 + k * 101 + m * 17 + hd)
        V = []   # (suffix, group, lmin, lmax, e0lo, e0hi, e1 range or None, sorted, strength, bound)
        l2 = min(2, hd - 1)
        g = max(1, 70 // (2 * n))                       # first indexes per run: <= ~70 requests per run
        for lo in range(0, n, g):
            hi = min(n - 1, lo + g - 1)
            V.append((".le2.i0=%d..%d" % (lo, hi), "xor.plan.le2", 1, l2, lo, hi, None, 0, "P#", ""))
        if hd == 4:
            pairs = [(x, y) for x in range(n) for y in range(n) if x != y]
            complete3 = tier == "thorough" and n <= 16
            if tier != "thorough":
                pairs = [pairs[rnd.randrange(len(pairs))]]
            elif not complete3:
                pairs = rnd.sample(pairs, 40)
            for (x, y) in pairs:
                V.append((".3.i=%d,%d" % (x, y), "xor.plan.3", 3, 3, x, x, (y, y), 0, "P#" if complete3 else "B",
                          "" if complete3 else ("requests with |R|+|X| == 3: %s (first, second) index pair(s) per hd=4 table (VERIF_SEED); all requests with |R|+|X| <= 2 complete; the thorough tier enumerates every pair of the tables with k+m <= 16 and 40 sampled pairs of the larger ones" % ("one" if tier != "thorough" else "40 sampled"))))
        r = 7 if hd == 3 else 6
        xs = list(range(max(0, n - 1 - r), n - hd + 1))
        if tier != "thorough":
            xs = [xs[rnd.randrange(len(xs))]]
        for x in xs:
            V.append((".beyond.i0=%d" % x, "xor.plan.beyond", hd, hd, x, x, None, 1, "B",
                      "requests beyond tolerance: |R|+|X| == hd, increasing index order, lowest index among the %d highest%s; larger requests take the same FAIL_PATTERN_GE_HD path" % (r, "" if tier == "thorough" else " (one per table, VERIF_SEED)")))
        xd = list(range(hd - 1, min(n - 1, r) + 1))      # decreasing order: highest index first, among the r+1 lowest
        if tier != "thorough":
            xd = [xd[random.Random(seed * 104729 + k * 101 + m * 17 + hd).randrange(len(xd))]]
        for x in xd:
            V.append((".beyond.dec.i0=%d" % x, "xor.plan.beyond", hd, hd, x, x, None, 2, "B",
                      "requests beyond tolerance: |R|+|X| == hd, decreasing index order, highest index among the %d lowest%s; mixed orders are not enumerated" % (r + 1, "" if tier == "thorough" else " (one per table, VERIF_SEED)")))
        x = rnd.randrange(n)
        V.append((".mem.i0=%d" % x, "xor.plan.mem", 1, l2, x, x, None, 0, "B", "memory-safety companion of the enumerated planner jobs under CBMC's own malloc/free model (use after free, leaks, exact heap bounds): requests with |R|+|X| <= 2 and one first index per table (VERIF_SEED)"))
        for (sfx, grp, lmin, lmax, lo, hi, e1, srt, strength, bound) in V:
            dd = {"K": k, "M": m, "HD": hd, "LMIN": lmin, "LMAX": lmax, "E0LO": lo, "E0HI": hi}
            if e1:
                dd["E1LO"], dd["E1HI"] = e1
            if srt:
                dd["SORTED"] = srt
            J.append(Job("xor.plan%s@%s" % (sfx, tag), group=grp, props=["C06"] + (["C15"] if grp == "xor.plan.mem" else []), layer="L2", strength=strength, bound=bound,
                         title=("flat_xor_hd_min_fragments/xor_hd_fragments_needed: EVERY request list R and exclude list X (all orders, all splits) with %d<=|R|+|X|<=%d and first index in [%d,%d]: %s" % (
                                lmin, lmax, lo, hi, "succeeds; answer -1 terminated, distinct, in range, disjoint from R and X, spans every requested row over GF(2)" if lmax < hd
                                else "an error or a correct answer, never a wrong list")),
                         functions=PLANFN, replaced=["malloc/free (CBMC models)" if grp == "xor.plan.mem" else "malloc/free (slot allocator of exact-size static objects, harness/stub_pool_alloc.c; use-after-free not modelled there, see xor.plan.mem)"], repo_src=[XC, XH, FX],
                         harness=["harness/x_plan.c", "harness/stub_env.c"] + ([] if grp in ("xor.plan.mem", "xor.plan.sym") else ["harness/stub_pool_alloc.c"]),
                         defines=dict(dd, **({} if grp in ("xor.plan.mem", "xor.plan.sym") else {"POOL_NBYTES": 4 * n, "POOL": 1})),
                         case={"k": k, "m": m, "hd": hd, "lmin": lmin, "lmax": lmax, "i0": [lo, hi], "i1": list(e1) if e1 else None}, unwind=34,
                         loop_bounds=[(r"SUBMASK", 66)],   # no tight bounds on the library's own list loops: CBMC does not reset a loop's unwind counter when the loop is left by break
                         export_static=True, replay=plan_replay(), object_bits=16, leak=(grp == "xor.plan.mem"),
                         expect=["C06: every requested fragment can be rebuilt", "C06: the answer contains none"], timeout=1200, mem_gb=4, weight=n * lmax))
    return J

#include <stdint.h>
#include <stdlib.h>
void region_xor(char *from_buf, char *to_buf, int blocksize);
int g_t;
void c_region_xor(char *from_buf, char *to_buf, int blocksize)
__CPROVER_requires(blocksize >= 1 && blocksize <= 2147483647)
__CPROVER_requires(0 <= g_t && g_t < blocksize)
__CPROVER_requires(__CPROVER_is_fresh(from_buf, blocksize))
__CPROVER_requires(__CPROVER_is_fresh(to_buf, blocksize))
__CPROVER_assigns(__CPROVER_object_upto(to_buf, blocksize))
__CPROVER_ensures(to_buf[g_t] == (char)(__CPROVER_old(to_buf[g_t]) ^ from_buf[g_t]))
;
void h_region_xor(void)
{
  char *f, *t; int bs;
  region_xor(f, t, bs);
}

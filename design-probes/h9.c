#include <stdint.h>
#include <stdlib.h>
#include "erasurecode.h"
int nondet_int(void);
int get_fragment_partition(int k, int m, char **fragments, int num_fragments, char **data, char **parity, int *missing);
#define NF 6
void h_part(void)
{
  int k = nondet_int(), m = nondet_int();
  __CPROVER_assume(1 <= k && 0 <= m && k + m <= 32);
  int nf = nondet_int(); __CPROVER_assume(0 <= nf && nf <= NF);
  char *frags[NF]; fragment_header_t hdr[NF];
  for (int p = 0; p < NF; p++) frags[p] = (char *)&hdr[p];
  char *data[32], *parity[32]; int missing[33];
  for (int i = 0; i < 33; i++) missing[i] = -1;       /* as alloc_and_set_buffer(-1) does */
  int rc = get_fragment_partition(k, m, frags, nf, data, parity, missing);
  int bad = 0;
  for (int p = 0; p < NF; p++) if (p < nf) {
    if (hdr[p].magic != 0xb0c5ecc) bad = 1;
    else if (hdr[p].meta.idx >= (uint32_t)(k + m)) bad = 1;
  }
  /* note: the implementation stops at the first bad header; bad => error */
  if (bad) __CPROVER_assert(rc == -EBADHEADER, "bad header refused");
  else {
    int i = nondet_int(); __CPROVER_assume(0 <= i && i < k + m);
    int present = 0; char *last = 0;
    for (int p = 0; p < NF; p++) if (p < nf && hdr[p].meta.idx == (uint32_t)i) { present = 1; last = frags[p]; }
    char *slot = i < k ? data[i] : parity[i - k];
    __CPROVER_assert(slot == last, "slot holds the (last) supplied fragment with that index, else NULL");
    int nmiss = 0, sorted = 1, listed = 0;
    for (int j = 0; j < 33; j++) { if (missing[j] < 0) break; nmiss++; if (j && missing[j] <= missing[j-1]) sorted = 0; if (missing[j] == i) listed = 1; }
    __CPROVER_assert(sorted, "missing list strictly increasing");
    __CPROVER_assert(listed == !present, "missing list is the complement of the supplied indexes");
    __CPROVER_assert((rc == -EINSUFFFRAGS) == (nmiss > m) && (rc == 0) == (nmiss <= m), "more than m missing is refused");
  }
}

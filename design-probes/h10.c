#include <stdint.h>
#include <stddef.h>
int liberasurecode_crc32_alt(int crc, const void *buf, size_t size);
uint32_t spec_crc32_legacy(const unsigned char *p, unsigned n);
uint32_t nondet_u32(void); unsigned char nondet_u8(void);
/* one legacy step on the internal (pre-inverted) register */
static uint32_t legacy_step(uint32_t c, unsigned char byte)
{
  uint32_t t = (c ^ byte) & 0xffu;
  for (int b = 0; b < 8; b++) t = (t >> 1) ^ (0xEDB88320u & (0u - (t & 1u)));
  uint32_t sh = (c >> 8) & 0x00ffffffu;
  if (sh & 0x00800000u) sh |= 0xff000000u;
  return t ^ sh;
}
void h_step(void)
{
  uint32_t crc0 = nondet_u32(); unsigned char b = nondet_u8();
  uint32_t got = (uint32_t)liberasurecode_crc32_alt((int)crc0, &b, 1);
  __CPROVER_assert(got == ~legacy_step(~crc0, b), "crc32_alt step == bit-serial legacy step, all 2^40 (crc,byte)");
}
void h_n4(void)
{
  unsigned char buf[4]; unsigned n = nondet_u8(); __CPROVER_assume(n <= 4);
  __CPROVER_assert((uint32_t)liberasurecode_crc32_alt(0, buf, n) == spec_crc32_legacy(buf, n), "crc32_alt == spec for n<=4");
}

/* rs_galois_mult replaced by its contract in "uninterpreted" form: the result for the
   ghost argument pair (g_x,g_y) is the ghost value g_prod; rs_galois_mult's own contract
   (== gf16_mul) is a separate L0 obligation */
int g_x, g_y; unsigned short g_prod; int nondet_int(void);
int rs_galois_mult(int x, int y)
{
  __CPROVER_assert(0 <= x && x < 65536 && 0 <= y && y < 65536, "rs_galois_mult.requires: operands are field elements");
  if (x == g_x && y == g_y) return g_prod;
  int r = nondet_int(); __CPROVER_assume(0 <= r && r < 65536); return r;
}

unsigned gf16_mul(unsigned a, unsigned b)
{ unsigned r = 0; for (int i = 0; i < 16; i++) { if (b & 1) r ^= a; b >>= 1; a <<= 1; if (a & 0x10000) a ^= 0x1100b; } return r; }
unsigned gf16_inv(unsigned a)
{ unsigned r = 1, p = a; for (int i = 1; i < 16; i++) { p = gf16_mul(p, p); r = gf16_mul(r, p); } return r; }
unsigned nondet_u(void);
void h_distrib(void){ unsigned a=nondet_u()&0xffff,b=nondet_u()&0xffff,c=nondet_u()&0xffff;
  __CPROVER_assert(gf16_mul(a,b^c)==(gf16_mul(a,b)^gf16_mul(a,c)),"distrib"); 
  __CPROVER_assert(gf16_mul(a,b)==gf16_mul(b,a),"comm"); }
void h_assoc(void){ unsigned a=nondet_u()&0xffff,b=nondet_u()&0xffff,c=nondet_u()&0xffff;
  __CPROVER_assert(gf16_mul(gf16_mul(a,b),c)==gf16_mul(a,gf16_mul(b,c)),"assoc"); }
void h_inv(void){ unsigned a=nondet_u()&0xffff; __CPROVER_assume(a!=0);
  __CPROVER_assert(gf16_mul(a,gf16_inv(a))==1,"inverse"); }

unsigned gf16_mul(unsigned a, unsigned b);
unsigned gf16_inv(unsigned a);
int rs_galois_mult(int x, int y)
{ __CPROVER_assert(0 <= x && x < 65536 && 0 <= y && y < 65536, "rs_galois_mult requires"); return (int)gf16_mul(x,y); }
int rs_galois_inverse(int x)
{ __CPROVER_assert(0 < x && x < 65536, "rs_galois_inverse requires"); return (int)gf16_inv(x); }
int rs_galois_div(int x, int y) { __CPROVER_assert(0,"unused"); return 0; }
void rs_galois_init_tables(void){}
void rs_galois_deinit_tables(void){}

#include <stdint.h>
void region_multiply(char *from_buf, char *to_buf, int mult, int xor, int blocksize);
unsigned gf16_mul(unsigned a, unsigned b);
int g_w;   /* ghost 16-bit word index */
extern int g_x, g_y; extern unsigned short g_prod;
void c_region_multiply(char *from_buf, char *to_buf, int mult, int xor, int blocksize)
__CPROVER_requires(blocksize >= 2 && blocksize <= 2147483646 && blocksize % 2 == 0)
__CPROVER_requires(0 <= mult && mult < 65536)
__CPROVER_requires(0 <= g_w && g_w < blocksize / 2)
__CPROVER_requires(__CPROVER_is_fresh(from_buf, blocksize))
__CPROVER_requires(__CPROVER_is_fresh(to_buf, blocksize))
__CPROVER_requires(g_x == ((uint16_t *)from_buf)[g_w] && g_y == mult)
__CPROVER_assigns(__CPROVER_object_upto(to_buf, blocksize))
__CPROVER_ensures(((uint16_t *)to_buf)[g_w] ==
   (uint16_t)((xor ? __CPROVER_old(((uint16_t *)to_buf)[g_w]) : 0) ^ g_prod))
;
void h_rm(void) { char *f, *t; int mult, x, bs; region_multiply(f, t, mult, x, bs); }

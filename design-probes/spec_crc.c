#include <stdint.h>
/* ---- independent spec: bitwise CRC-32 (IEEE, reflected 0xEDB88320) ---- */
uint32_t spec_crc32(const unsigned char *p, unsigned n)
{
  uint32_t c = 0xffffffffu;
  for (unsigned i = 0; i < n; i++) {
    c ^= p[i];
    for (int b = 0; b < 8; b++) c = (c >> 1) ^ (0xEDB88320u & (0u - (c & 1u)));
  }
  return ~c;
}
/* historical variant (bug 1666320): the >>8 of the running value is an arithmetic
   (sign-extending from bit 23) shift instead of a logical one */
uint32_t spec_crc32_legacy(const unsigned char *p, unsigned n)
{
  uint32_t c = 0xffffffffu;
  for (unsigned i = 0; i < n; i++) {
    uint32_t t = (c ^ p[i]) & 0xffu;
    for (int b = 0; b < 8; b++) t = (t >> 1) ^ (0xEDB88320u & (0u - (t & 1u)));
    uint32_t sh = (c >> 8) & 0x00ffffffu;
    if (sh & 0x00800000u) sh |= 0xff000000u;
    c = t ^ sh;
  }
  return ~c;
}
/* assumed contract for zlib's crc32 (external): returns the standard CRC-32 */
unsigned long crc32(unsigned long crc, const unsigned char *buf, unsigned len)
{
  __CPROVER_assert(crc == 0, "crc32 called with crc==0");
  return spec_crc32(buf, len);
}

#include <stdint.h>
#include <stddef.h>
#include "erasurecode.h"
int is_invalid_fragment_header(fragment_header_t *header);
uint32_t nondet_u32(void);
static unsigned char buf[80];
static uint32_t g_std, g_leg;          /* ghost results of the two CRC callees on (buf, 59) */
unsigned long crc32(unsigned long crc, const unsigned char *p, unsigned len)
{ __CPROVER_assert(crc == 0 && p == buf && len == 59, "crc32 called on exactly the 59 metadata bytes"); return g_std; }
int liberasurecode_crc32_alt(int crc, const void *p, size_t len)
{ __CPROVER_assert(crc == 0 && p == (const void *)buf && len == 59, "crc32_alt called on exactly the 59 metadata bytes"); return (int)g_leg; }
static uint32_t rd32(const unsigned char *b, int off){ return b[off] | (b[off+1]<<8) | (b[off+2]<<16) | ((uint32_t)b[off+3]<<24); }
static uint32_t bsw(uint32_t x){ return x>>24 | (x>>8&0xff00) | (x<<8&0xff0000) | x<<24; }
void h_hdr(void)
{
  unsigned char copy[80];
  g_std = nondet_u32(); g_leg = nondet_u32();
  for (int i = 0; i < 80; i++) copy[i] = buf[i] = (unsigned char)nondet_u32();
  int r = is_invalid_fragment_header((fragment_header_t *)buf);
  uint32_t magic = rd32(copy,59), ver = rd32(copy,63), stored = rd32(copy,67);
  int accept;
  if (ver == 0) accept = 0;
  else if (magic != 0x0b0c5ecc && bsw(magic) != 0x0b0c5ecc) accept = 0;
  else { if (magic != 0x0b0c5ecc) { ver = bsw(ver); stored = bsw(stored); }
         accept = ver < ((1<<16)|(2<<8)) ? 1 : (stored == g_std || stored == g_leg); }
  __CPROVER_assert((r == 0) == (accept == 1), "C09: accepted iff spec predicate");
  __CPROVER_assert(r == 0 || r == 1, "verdict is 0/1");
  for (int i = 0; i < 80; i++) __CPROVER_assert(buf[i] == copy[i], "validation does not modify the fragment");
}

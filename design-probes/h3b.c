#include <stdint.h>
#include <stdlib.h>
int * make_systematic_matrix(int k, int m);
int rs_galois_mult(int x, int y);
int rs_galois_div(int x, int y);
int rs_galois_inverse(int x);

/* ---- independent spec: GF(2^16), poly 0x1100b, shift-and-xor ---- */
unsigned gf16_mul(unsigned a, unsigned b)
{
  unsigned r = 0;
  for (int i = 0; i < 16; i++) {
    if (b & 1) r ^= a;
    b >>= 1;
    a <<= 1;
    if (a & 0x10000) a ^= 0x1100b;
  }
  return r;
}
unsigned gf16_inv(unsigned a) /* a^(2^16-2) */
{
  unsigned r = 1, p = a;
  for (int i = 1; i < 16; i++) { p = gf16_mul(p, p); r = gf16_mul(r, p); }
  return r;
}

int c_rs_galois_mult(int x, int y)
__CPROVER_requires(0 <= x && x < 65536 && 0 <= y && y < 65536)
__CPROVER_assigns()
__CPROVER_ensures(__CPROVER_return_value == (int)gf16_mul(x, y))
;
int c_rs_galois_inverse(int x)
__CPROVER_requires(0 < x && x < 65536)
__CPROVER_assigns()
__CPROVER_ensures(__CPROVER_return_value == (int)gf16_inv(x))
;

#ifndef K
#define K 4
#endif
#ifndef M
#define M 2
#endif
void h_matrix(void)
{
  int k = K, m = M;
  int *g = make_systematic_matrix(k, m);
  __CPROVER_assume(g != NULL);
  /* identity on top */
  for (int r = 0; r < k; r++)
    for (int j = 0; j < k; j++)
      __CPROVER_assert(g[r*k+j] == (r==j), "identity block");
  for (int r = k; r < k+m; r++)
    for (int j = 0; j < k; j++) {
      unsigned num = 1, den = 1;
      for (int i = 0; i < k; i++) if (i != j) { num = gf16_mul(num, r ^ i); den = gf16_mul(den, k ^ i); }
      /* L_j(r)/L_j(k)  where L_j(x) = prod_{i<k,i!=j} (x ^ i) */
      unsigned want = gf16_mul(num, gf16_inv(den));
      __CPROVER_assert((unsigned)g[r*k+j] == want, "parity coefficient closed form");
    }
}

void xor_bufs_and_store(char *buf1, char *buf2, int blocksize);
int g_t;
void c_xor_bufs_and_store(char *buf1, char *buf2, int blocksize)
__CPROVER_requires(blocksize >= 1 && blocksize <= 2147483647)
__CPROVER_requires(0 <= g_t && g_t < blocksize)
__CPROVER_requires(__CPROVER_is_fresh(buf1, blocksize))
__CPROVER_requires(__CPROVER_is_fresh(buf2, blocksize))
__CPROVER_assigns(__CPROVER_object_upto(buf2, blocksize))
__CPROVER_ensures(buf2[g_t] == (char)(__CPROVER_old(buf2[g_t]) ^ buf1[g_t]))
;
void h_xbs(void) { char *a, *b; int bs; xor_bufs_and_store(a, b, bs); }

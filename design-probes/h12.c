#include <stdint.h>
#include <stdlib.h>
#include <string.h>
unsigned gf16_mul(unsigned a, unsigned b);
unsigned gf16_inv(unsigned a);
int liberasurecode_rs_vand_encode(int *g, char **data, char **parity, int k, int m, int bs);
int liberasurecode_rs_vand_decode(int *g, char **data, char **parity, int k, int m, int *missing, int bs, int rebuild_parity);
int liberasurecode_rs_vand_reconstruct(int *g, char **data, char **parity, int k, int m, int *missing, int dest, int bs);
#define N (K+M)
static int G[N*K];
static uint16_t cw[N];           /* codeword of the current unit vector */
static uint16_t bufs[N];         /* one 16-bit word per fragment (blocksize 2) */
void h_rsdec(void)
{
  /* contract of make_systematic_matrix: identity over closed-form parity rows */
  for (int r = 0; r < N; r++) for (int j = 0; j < K; j++) {
    if (r < K) G[r*K+j] = (r == j);
    else { unsigned num = 1, den = 1; for (int i = 0; i < K; i++) if (i != j) { num = gf16_mul(num, r ^ i); den = gf16_mul(den, K ^ i); } G[r*K+j] = gf16_mul(num, gf16_inv(den)); }
  }
  for (unsigned bm = 0; bm < (1u << N); bm++) {
    int nm = __builtin_popcount(bm); if (nm > M) continue;
    for (int u = 0; u < K; u++) {
      for (int r = 0; r < N; r++) cw[r] = (uint16_t)G[r*K+u];     /* encode of unit vector e_u, by the encode contract */
      char *data[K], *parity[M]; int missing[N+1], p = 0;
      for (int r = 0; r < N; r++) { if (bm & (1u<<r)) { missing[p++] = r; bufs[r] = 0; } else bufs[r] = cw[r];
        if (r < K) data[r] = (char*)&bufs[r]; else parity[r-K] = (char*)&bufs[r]; }
      missing[p] = -1;
      int rc = liberasurecode_rs_vand_decode(G, data, parity, K, M, missing, 2, 1);
      __CPROVER_assert(rc == 0, "decode rc");
      for (int r = 0; r < N; r++) __CPROVER_assert(bufs[r] == cw[r], "decode restores data and parity of unit vector");
    }
  }
}

#include <stdint.h>
#include <stddef.h>
#include <stdlib.h>
#include "erasurecode.h"
#include "erasurecode_backend.h"

/* ---- backend-ops interface contract, as stubs (what the front end may assume of ANY backend) ---- */
int nondet_int(void);
static struct ec_backend g_inst; static int g_inst_live;
static int g_k, g_m;
static int st_encode(void *desc, char **data, char **parity, int blocksize)
{
  __CPROVER_assert(blocksize >= 0, "encode: blocksize >= 0");
  for (int j = 0; j < g_m; j++) {
    __CPROVER_assert(__CPROVER_w_ok(parity[j], blocksize), "encode: parity[j] writable for blocksize");
    if (blocksize > 0) { int t = nondet_int(); __CPROVER_assume(0 <= t && t < blocksize); parity[j][t] = (char)nondet_int(); }
  }
  for (int i = 0; i < g_k; i++)
    __CPROVER_assert(__CPROVER_r_ok(data[i], blocksize), "encode: data[i] readable for blocksize");
  int rc = nondet_int(); __CPROVER_assume(rc <= 0);   /* may fail: C17 */
  return rc;
}
static size_t st_meta(void *desc, int bs) { return 0; }
static size_t st_off(void *desc, int ms) { return 0; }
static struct ec_backend_op_stubs st_ops = { .encode = st_encode, .get_backend_metadata_size = st_meta, .get_encode_offset = st_off };

ec_backend_t liberasurecode_backend_instance_get_by_desc(int desc)
{
  if (!g_inst_live || desc != g_inst.idesc) return NULL;
  return &g_inst;
}

void h_encode(void)
{
  g_k = CK; g_m = CM;
  __CPROVER_assume(1 <= g_k && g_k <= KMAX && 0 <= g_m && g_k + g_m <= KMAX);
  g_inst.args.uargs.k = g_k; g_inst.args.uargs.m = g_m; g_inst.args.uargs.w = 16;
  g_inst.args.uargs.ct = nondet_int();
  g_inst.common.id = EC_BACKEND_LIBERASURECODE_RS_VAND;
  g_inst.common.ops = &st_ops;
  g_inst.idesc = nondet_int(); __CPROVER_assume(g_inst.idesc > 0);
  g_inst_live = nondet_int() & 1;

  int desc = nondet_int();
  uint64_t len = CLEN;
  char *orig = nondet_int() ? NULL : malloc(len);
  char **ed = NULL, **ep = NULL; uint64_t flen = 0;
  char ***ped = nondet_int() ? NULL : &ed;
  char ***pep = nondet_int() ? NULL : &ep;
  uint64_t *pfl = nondet_int() ? NULL : &flen;
  int rc = liberasurecode_encode(desc, orig, len, ped, pep, pfl);
  __CPROVER_assert(rc <= 0, "rc is 0 or negative");
  if (!orig || !ped || !pep || !pfl || !g_inst_live || desc != g_inst.idesc)
    __CPROVER_assert(rc < 0, "C13: invalid argument refused");
  if (rc == 0) {
    __CPROVER_assert(flen == 80 + ((len + g_k*2 - 1) / (g_k*2)) * 2, "C08/C07: fragment_len");
    int i = nondet_int(); __CPROVER_assume(0 <= i && i < g_k);
    uint64_t bs = flen - 80;
    uint64_t t = nondet_int(); __CPROVER_assume(t < bs);
    uint64_t src = (uint64_t)i * bs + t;
    __CPROVER_assert(ed[i][80 + t] == (src < len ? orig[src] : 0), "C07: data fragment i carries bytes [i*size,(i+1)*size), zero padded");
    liberasurecode_encode_cleanup(desc, ed, ep);
  }
  free(orig);
}

void liberasurecode_init(void){}
void liberasurecode_exit(void){}
void syslog(int p, const char *f, ...){}
char *getenv(const char *n){ return (char*)0; }

#include <pthread.h>
int pthread_rwlock_wrlock(pthread_rwlock_t *l){ return 0; }
int pthread_rwlock_unlock(pthread_rwlock_t *l){ return 0; }

#include <stdlib.h>
#include "erasurecode.h"
#include "erasurecode_backend.h"
int nondet_int(void);
extern int next_backend_desc;
int liberasurecode_backend_alloc_desc(void);
#define NL 3
/* registry head as declared in erasurecode.c */
extern struct backend_list { struct ec_backend *slh_first; } active_instances;
static struct ec_backend node[NL + 1];
void h_reg(void)
{
  /* arbitrary well-formed registry with n <= NL live instances: acyclic list, positive pairwise-distinct descriptors */
  int n = nondet_int(); __CPROVER_assume(0 <= n && n <= NL);
  active_instances.slh_first = n > 0 ? &node[0] : NULL;
  for (int i = 0; i < NL; i++) {
    node[i].link.sle_next = (i + 1 < n) ? &node[i + 1] : NULL;
    node[i].idesc = nondet_int(); __CPROVER_assume(node[i].idesc > 0);
    for (int j = 0; j < i; j++) __CPROVER_assume(node[j].idesc != node[i].idesc);
  }
  next_backend_desc = nondet_int();                      /* any counter value, INT_MAX and negatives included */
  ec_backend_t inst = &node[NL]; inst->idesc = 0;         /* as calloc'ed by create */
  int d = liberasurecode_backend_instance_register(inst);
  __CPROVER_assert(d > 0, "C14: descriptor is positive");
  for (int i = 0; i < NL; i++) if (i < n) __CPROVER_assert(node[i].idesc != d, "C14: descriptor differs from every live one");
  __CPROVER_assert(inst->idesc == d && active_instances.slh_first == inst && inst->link.sle_next == (n > 0 ? &node[0] : NULL), "registered at head, rest of the list unchanged");
  __CPROVER_assert(liberasurecode_backend_instance_get_by_desc(d) == inst, "lookup finds the new instance");
  int rc = liberasurecode_backend_instance_unregister(inst);
  __CPROVER_assert(rc == 0 && liberasurecode_backend_instance_get_by_desc(d) == NULL, "C14: dead after unregister");
}

#include <stdlib.h>
#include "xor_code.h"
int nondet_int(void);
void h_fn(void)
{
  xor_code_t *c = init_xor_hd_code(K, M, HD);
  __CPROVER_assert(c != NULL, "table exists");
  int R[4], X[1] = { -1 }, out[K + M + 1];
  int n = nondet_int(); __CPROVER_assume(1 <= n && n < HD);
  for (int i = 0; i < 3; i++) { R[i] = nondet_int(); __CPROVER_assume(i >= n ? R[i] == -1 : (0 <= R[i] && R[i] < K + M)); if (i > 0 && i < n) __CPROVER_assume(R[i] > R[i-1]); }
  R[3] = -1;
  for (int i = 0; i <= K + M; i++) out[i] = -2;
  int rc = c->fragments_needed(c, R, X, out);
  __CPROVER_assert(rc == 0, "C06: within tolerance => planner succeeds");
  if (rc == 0) {
    int end = -1;
    for (int i = 0; i <= K + M; i++) if (out[i] == -1) { end = i; break; }
    __CPROVER_assert(end >= 0, "C06: list is -1 terminated");
    for (int i = 0; i < K + M; i++) if (i < end) {
      __CPROVER_assert(0 <= out[i] && out[i] < K + M, "C06: indexes in range");
      for (int j = 0; j < 3; j++) __CPROVER_assert(out[i] != R[j], "C06: disjoint from requested");
    }
  }
}

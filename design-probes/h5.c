#include <stdlib.h>
#include "xor_code.h"
int g_t;   /* ghost byte index, arbitrary but fixed */

void c_xor_bufs_and_store(char *buf1, char *buf2, int blocksize)
__CPROVER_requires(blocksize >= 1 && 0 <= g_t && g_t < blocksize)
__CPROVER_requires(__CPROVER_r_ok(buf1, blocksize) && __CPROVER_w_ok(buf2, blocksize))
__CPROVER_requires(!__CPROVER_same_object(buf1, buf2))
__CPROVER_assigns(__CPROVER_object_upto(buf2, blocksize))
__CPROVER_ensures(buf2[g_t] == (char)(__CPROVER_old(buf2[g_t]) ^ buf1[g_t]))
;
void c_fast_memcpy(char *dst, char *src, int size)
__CPROVER_requires(size >= 1 && 0 <= g_t && g_t < size)
__CPROVER_requires(__CPROVER_r_ok(src, size) && __CPROVER_w_ok(dst, size))
__CPROVER_requires(!__CPROVER_same_object(dst, src))
__CPROVER_assigns(__CPROVER_object_upto(dst, size))
__CPROVER_ensures(dst[g_t] == src[g_t])
;

void h_decode(void)
{
  xor_code_t *c = init_xor_hd_code(K, M, HD);
  __CPROVER_assert(c != NULL, "table exists");
  int bs; __CPROVER_assume(bs >= 1 && bs <= 1<<30);
  __CPROVER_assume(0 <= g_t && g_t < bs);
  char d[K]; /* original data at ghost index (nondet) */
  unsigned miss_bm; int nmiss = 0;
  __CPROVER_assume(miss_bm < (1u << (K+M)));
  int missing[K+M+1];
  for (int i = 0; i < K+M; i++) if (miss_bm & (1u<<i)) missing[nmiss++] = i;
  missing[nmiss] = -1;
  __CPROVER_assume(nmiss < HD);
  char *data[K], *parity[M];
  for (int i = 0; i < K; i++) { data[i] = malloc(bs); __CPROVER_assume(data[i]); data[i][g_t] = (miss_bm & (1u<<i)) ? 0 : d[i]; }
  char p[M];
  for (int j = 0; j < M; j++) {
    p[j] = 0;
    for (int i = 0; i < K; i++) if (c->parity_bms[j] & (1u<<i)) p[j] ^= d[i];
    parity[j] = malloc(bs); __CPROVER_assume(parity[j]);
    parity[j][g_t] = (miss_bm & (1u<<(K+j))) ? 0 : p[j];
  }
  int rc = c->decode(c, data, parity, missing, bs, 1);
  __CPROVER_assert(rc == 0, "decode succeeds within tolerance");
  for (int i = 0; i < K; i++) __CPROVER_assert(data[i][g_t] == d[i], "data recovered");
  for (int j = 0; j < M; j++) __CPROVER_assert(parity[j][g_t] == p[j], "parity recovered");
}

#include <stdint.h>
#include <stddef.h>
#include "erasurecode.h"
int is_invalid_fragment_header(fragment_header_t *header);

/* ---- independent spec: bitwise CRC-32 (IEEE, reflected 0xEDB88320) ---- */
static uint32_t spec_crc32(const unsigned char *p, unsigned n)
{
  uint32_t c = 0xffffffffu;
  for (unsigned i = 0; i < n; i++) {
    c ^= p[i];
    for (int b = 0; b < 8; b++) c = (c >> 1) ^ (0xEDB88320u & (0u - (c & 1u)));
  }
  return ~c;
}
/* historical variant (bug 1666320): the >>8 of the running value is an arithmetic
   (sign-extending from bit 23) shift instead of a logical one */
static uint32_t spec_crc32_legacy(const unsigned char *p, unsigned n)
{
  uint32_t c = 0xffffffffu;
  for (unsigned i = 0; i < n; i++) {
    uint32_t t = (c ^ p[i]) & 0xffu;
    for (int b = 0; b < 8; b++) t = (t >> 1) ^ (0xEDB88320u & (0u - (t & 1u)));
    uint32_t sh = (c >> 8) & 0x00ffffffu;
    if (sh & 0x00800000u) sh |= 0xff000000u;
    c = t ^ sh;
  }
  return ~c;
}
/* assumed contract for zlib's crc32 (external): returns the standard CRC-32 */
unsigned long crc32(unsigned long crc, const unsigned char *buf, unsigned len)
{
  __CPROVER_assert(crc == 0, "crc32 called with crc==0");
  return spec_crc32(buf, len);
}
static uint32_t rd32(const unsigned char *b, int off){ return b[off] | (b[off+1]<<8) | (b[off+2]<<16) | ((uint32_t)b[off+3]<<24); }
static uint32_t bsw(uint32_t x){ return x>>24 | (x>>8&0xff00) | (x<<8&0xff0000) | x<<24; }

void h_hdr(void)
{
  unsigned char buf[80];
  unsigned char copy[80];
  for (int i = 0; i < 80; i++) copy[i] = buf[i];
  int r = is_invalid_fragment_header((fragment_header_t *)buf);
  /* spec predicate over raw bytes: magic@59, version@63, crc@67, meta = bytes 0..58 */
  uint32_t magic = rd32(copy,59), ver = rd32(copy,63), stored = rd32(copy,67);
  int accept;
  if (ver == 0) accept = 0;
  else if (magic != 0x0b0c5ecc && bsw(magic) != 0x0b0c5ecc) accept = 0;
  else {
    if (magic != 0x0b0c5ecc) { ver = bsw(ver); stored = bsw(stored); }
    if (ver < ((1<<16)|(2<<8)|0)) accept = 1;
    else accept = (stored == spec_crc32(copy,59)) || (stored == spec_crc32_legacy(copy,59));
  }
  __CPROVER_assert((r == 0) == (accept == 1), "C09: accepted iff spec predicate");
  __CPROVER_assert(r == 0 || r == 1, "verdict is 0/1");
  for (int i = 0; i < 80; i++) __CPROVER_assert(buf[i] == copy[i], "validation does not modify the fragment");
}

extern int g_t;
void xor_bufs_and_store(char *buf1, char *buf2, int blocksize)
{
  __CPROVER_assert(blocksize >= 1 && 0 <= g_t && g_t < blocksize, "xbs requires size");
  __CPROVER_assert(__CPROVER_r_ok(buf1, blocksize) && __CPROVER_w_ok(buf2, blocksize), "xbs requires buffers");
  __CPROVER_assert(!__CPROVER_same_object(buf1, buf2), "xbs requires distinct");
  buf2[g_t] = (char)(buf2[g_t] ^ buf1[g_t]);
}
void fast_memcpy(char *dst, char *src, int size)
{
  __CPROVER_assert(size >= 1 && 0 <= g_t && g_t < size, "memcpy requires size");
  __CPROVER_assert(__CPROVER_r_ok(src, size) && __CPROVER_w_ok(dst, size), "memcpy requires buffers");
  __CPROVER_assert(!__CPROVER_same_object(dst, src), "memcpy requires distinct");
  dst[g_t] = src[g_t];
}

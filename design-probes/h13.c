#include <stdint.h>
#include <stddef.h>
#include <stdlib.h>
#include <string.h>
#include "erasurecode.h"
#include "erasurecode_backend.h"
int nondet_int(void);
#define K 3
#define M 2
#define N 5
#define BS 6
#define FLEN 86
#define ORIG 13
#define NFMAX 6
static struct ec_backend g_inst;
static char stripe[N][FLEN];       /* fragments satisfying encode's postcondition */
static char *g_list[NFMAX]; static int g_nf; static int g_bad[NFMAX]; static int g_avail[N];
static fragment_header_t *H(char *f) { return (fragment_header_t *)f; }

/* ================= callee contracts, in executable (assert-requires / produce-ensures) form ================= */
ec_backend_t liberasurecode_backend_instance_get_by_desc(int desc) { return desc == g_inst.idesc ? &g_inst : NULL; }

int is_invalid_fragment_header(fragment_header_t *h)
{ for (int p = 0; p < NFMAX; p++) if (p < g_nf && (char *)h == g_list[p]) return g_bad[p];
  __CPROVER_assert(0, "is_invalid_fragment_header.requires: header of a supplied fragment"); return 1; }

int fragments_to_string(int k, int m, char **frags, int nf, char **out, uint64_t *len)
{
  __CPROVER_assert(k == K && m == M, "fragments_to_string.requires: k,m of the instance");
  char *slot[K] = {0}; int have = 0; int64_t orig = -1; *out = NULL;
  if (nf < k) return -1;
  for (int p = 0; p < NFMAX; p++) if (p < nf) {
    __CPROVER_assert(__CPROVER_r_ok(frags[p], FLEN), "fragments_to_string.requires: fragments readable");
    if (H(frags[p])->magic != LIBERASURECODE_FRAG_HEADER_MAGIC) return -EBADHEADER;
    int idx = (int)H(frags[p])->meta.idx; if (idx < 0 || (int)H(frags[p])->meta.size < 0) return -EBADHEADER;
    if (orig < 0) orig = (int)H(frags[p])->meta.orig_data_size; else if ((int)H(frags[p])->meta.orig_data_size != orig) return -EBADHEADER;
    if (idx < k && !slot[idx]) { slot[idx] = frags[p]; have++; }
  }
  if (have != k) return -1;
  __CPROVER_assume(orig == ORIG);                     /* slice */
  char *o = malloc(ORIG);
  for (int b = 0; b < ORIG; b++) o[b] = slot[b / BS][80 + b % BS];
  *out = o; *len = ORIG; return 0;
}

int get_fragment_partition(int k, int m, char **frags, int nf, char **data, char **parity, int *missing)
{
  for (int i = 0; i < K; i++) data[i] = NULL; for (int j = 0; j < M; j++) parity[j] = NULL;
  for (int p = 0; p < NFMAX; p++) if (p < nf) {
    if (H(frags[p])->magic != LIBERASURECODE_FRAG_HEADER_MAGIC) return -EBADHEADER;
    int idx = (int)H(frags[p])->meta.idx; if (idx < 0 || idx >= N) return -EBADHEADER;
    if (idx < K) data[idx] = frags[p]; else parity[idx - K] = frags[p];
  }
  int nm = 0;
  for (int i = 0; i < N; i++) if (!(i < K ? data[i] : parity[i - K])) missing[nm++] = i;
  return nm > M ? -EINSUFFFRAGS : 0;
}

int prepare_fragments_for_decode(int k, int m, char **data, char **parity, int *missing,
                                 int *orig, int *bs, int fragment_size, uint64_t *realloc_bm)
{
  __CPROVER_assert(fragment_size == FLEN, "prepare.requires: slice fragment length");
  for (int i = 0; i < N; i++) {
    char **s = i < K ? &data[i] : &parity[i - K];
    if (!*s) { char *f = calloc(1, FLEN); H(f)->magic = LIBERASURECODE_FRAG_HEADER_MAGIC; *s = f; *realloc_bm |= (1ull << i); }
  }
  *orig = ORIG; *bs = BS; return 0;
}
void add_fragment_metadata(ec_backend_t be, char *f, int idx, uint64_t orig, int bs, ec_checksum_type_t ct, int add)
{ __CPROVER_assert(__CPROVER_w_ok(f, 80), "add_fragment_metadata.requires: header writable");
  H(f)->meta.idx = idx; H(f)->meta.size = bs; H(f)->meta.orig_data_size = orig; H(f)->libec_version = LIBERASURECODE_VERSION; }
int is_invalid_fragment(int desc, char *f)
{ for (int p = 0; p < NFMAX; p++) if (p < g_nf && f == g_list[p]) return g_bad[p]; return 1; }

/* backend decode: interface contract */
static int st_decode(void *desc, char **data, char **parity, int *missing, int bs)
{
  __CPROVER_assert(bs == BS, "decode.requires: blocksize");
  int pos = 0, nmiss = 0;
  for (int i = 0; i < N; i++) {
    char *buf = i < K ? data[i] : parity[i - K];
    __CPROVER_assert(__CPROVER_w_ok(buf, BS), "decode.requires: buffers valid for blocksize");
    int t = nondet_int(); __CPROVER_assume(0 <= t && t < BS);
    if (!g_avail[i]) { __CPROVER_assert(missing[pos] == i, "decode.requires: missing list = sorted complement"); pos++; nmiss++;
                       __CPROVER_assert(buf[t] == 0, "decode.requires: missing buffers zeroed"); }
    else __CPROVER_assert(buf[t] == stripe[i][80 + t], "decode.requires: survivor payloads are stripe symbols");
  }
  __CPROVER_assert(missing[pos] == -1, "decode.requires: terminated");
  int rc = nondet_int(); __CPROVER_assume(rc <= 0);
  if (rc == 0) for (int i = 0; i < K; i++) if (!g_avail[i]) for (int t = 0; t < BS; t++) data[i][t] = stripe[i][80 + t];
  return rc;
}
static struct ec_backend_op_stubs st_ops = { .decode = st_decode };

void h_decode(void)
{
  g_inst.args.uargs.k = K; g_inst.args.uargs.m = M; g_inst.args.uargs.w = 16; g_inst.args.uargs.ct = nondet_int();
  g_inst.common.id = EC_BACKEND_LIBERASURECODE_RS_VAND; g_inst.common.ops = &st_ops; g_inst.idesc = 7;
  for (int i = 0; i < N; i++) { H(stripe[i])->magic = LIBERASURECODE_FRAG_HEADER_MAGIC; H(stripe[i])->meta.idx = i;
    H(stripe[i])->meta.size = BS; H(stripe[i])->meta.orig_data_size = ORIG; H(stripe[i])->libec_version = LIBERASURECODE_VERSION; }
  g_nf = nondet_int(); __CPROVER_assume(0 <= g_nf && g_nf <= NFMAX);
  int anybad = 0;
  for (int p = 0; p < NFMAX; p++) if (p < g_nf) { int s = nondet_int(); __CPROVER_assume(0 <= s && s < N); g_list[p] = stripe[s]; g_avail[s] = 1;
                                                   g_bad[p] = 0; }
  int nmissing = 0; for (int i = 0; i < N; i++) nmissing += !g_avail[i];
  int desc = nondet_int(); int force = nondet_int();
  char *out = NULL; uint64_t outlen = 0;
  char **pl = nondet_int() ? NULL : g_list; char **po = nondet_int() ? NULL : &out; uint64_t *pn = nondet_int() ? NULL : &outlen;
  uint64_t flen = nondet_int() ? FLEN : (uint64_t)nondet_int();
  int rc = liberasurecode_decode(desc, pl, g_nf, flen, force, po, pn);
  __CPROVER_assert(rc <= 0, "rc is 0 or negative");
  if (desc != 7 || !pl || !po || !pn || g_nf < K || flen < 80) __CPROVER_assert(rc < 0, "C13: invalid arguments refused");
  if (rc == 0 && flen == FLEN) {
    __CPROVER_assert(outlen == ORIG, "C01/C02: length");
    int b = nondet_int(); __CPROVER_assume(0 <= b && b < ORIG);
    __CPROVER_assert(out[b] == stripe[b / BS][80 + b % BS], "C01/C02: success implies the original bytes");
    free(out);
  }
}

#!/usr/bin/env python3
"""Markdown table: which obligation groups (job families) the registered check of each property runs."""
import importlib, os, re, sys
HERE = os.path.dirname(os.path.dirname(os.path.abspath(__file__)))
sys.path.insert(0, HERE)
jobs = []
for fn in sorted(os.listdir(os.path.join(HERE, "jobs"))):
    if fn.endswith(".py") and not fn.startswith("_"):
        jobs += importlib.import_module("jobs." + fn[:-3]).jobs("quick", 0)
tj = []
for fn in sorted(os.listdir(os.path.join(HERE, "jobs"))):
    if fn.endswith(".py") and not fn.startswith("_"):
        tj += importlib.import_module("jobs." + fn[:-3]).jobs("thorough", 0)
props = sorted({p for j in jobs for p in j.props})
print("| property | verifier runs quick / thorough | obligation groups |")
print("|---|---|---|")
for p in props:
    g = sorted({re.sub(r"\.(vand|cauchy)$", "", j.group) for j in jobs if p in j.props})
    print("| %s | %d / %d | %s |" % (p, sum(1 for j in jobs if p in j.props), sum(1 for j in tj if p in j.props), ", ".join("`%s`" % x for x in g)))

#!/usr/bin/env python3
"""One-off: snapshot the 38 flat-XOR parity-equation tables of the pinned tree into specs/xor_golden.h,
in a representation different from the source (per table: for each data column, the set of parities it
feeds, as one hex mask).  The snapshot is frozen in /verif; checks compare the code's arrays against it."""
import re, sys
src = open("/repo/include/xor_codes/xor_hd_code_defs.h").read()
tabs = {}
for m in re.finditer(r"g_(\d+)_(\d+)_(\d+)_hd_code_data_bms\[\] = \{([^}]*)\}", src):
    k, mm, hd = int(m.group(1)), int(m.group(2)), int(m.group(3))
    tabs[(k, mm, hd)] = [int(x) for x in m.group(4).replace(" ", "").split(",") if x]
out = ["/* GOLDEN snapshot of the flat-XOR equations (frozen; generated once by tools/gen_xor_golden.py from the",
       " * pinned tree).  spec_xor_col(k,m,hd,i) = mask over parities j (bit j) whose equation contains data i. */",
       "#ifndef SPEC_XOR_GOLDEN_H", "#define SPEC_XOR_GOLDEN_H",
       "static inline int spec_xor_supported(int k, int m, int hd)", "{",
       "  if (hd == 3) return (m == 6 && k >= 6 && k <= 15) || (m == 5 && k >= 5 && k <= 10) || (m == 3 && k == 3);",
       "  if (hd == 4) return (m == 6 && k >= 6 && k <= 20) || (m == 5 && k >= 5 && k <= 10);",
       "  return 0;", "}",
       "static inline unsigned spec_xor_col(int k, int m, int hd, int i)", "{"]
for (k, mm, hd), cols in sorted(tabs.items()):
    assert len(cols) == k
    out.append("  if (k == %d && m == %d && hd == %d) { static const unsigned short c[%d] = {%s}; return c[i]; }"
               % (k, mm, hd, k, ",".join("0x%x" % c for c in cols)))
out += ["  return 0;", "}",
        "/* equation of parity j as a mask over data columns, derived from the columns */",
        "static inline unsigned spec_xor_row(int k, int m, int hd, int j)", "{",
        "  unsigned r = 0;", "  for (int i = 0; i < k; i++) if ((spec_xor_col(k, m, hd, i) >> j) & 1u) r |= 1u << i;", "  return r;", "}",
        "#endif"]
open("/verif/specs/xor_golden.h", "w").write("\n".join(out) + "\n")
print(len(tabs), "tables")

#!/usr/bin/env python3
"""Regenerates the two generated tables of DESIGN.md (between the SEED_TABLE / PROP_TABLE markers)."""
import os, re, subprocess, sys
HERE = os.path.dirname(os.path.dirname(os.path.abspath(__file__)))
p = os.path.join(HERE, "DESIGN.md")
s = open(p).read()
for name, tool in (("SEED_TABLE", "seed_table.py"), ("PROP_TABLE", "prop_jobs_table.py")):
    out = subprocess.run([sys.executable, os.path.join(HERE, "tools", tool)], stdout=subprocess.PIPE).stdout.decode()
    s = re.sub(r"<!-- %s begin -->.*?<!-- %s end -->" % (name, name), lambda m: "<!-- %s begin -->\n%s<!-- %s end -->" % (name, out, name), s, flags=re.S)
open(p, "w").write(s)

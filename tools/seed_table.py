#!/usr/bin/env python3
"""Markdown table of the seeded changes and what the registered checks reported for each (from seeded/*/meta.json, detect.json)."""
import json, os, re, glob
rows = []
for d in sorted(glob.glob(os.path.join(os.path.dirname(os.path.dirname(os.path.abspath(__file__))), "seeded", "*"))):
    if not os.path.exists(d + "/meta.json"):
        continue
    m = json.load(open(d + "/meta.json"))
    det = json.load(open(d + "/detect.json")) if os.path.exists(d + "/detect.json") else {}
    obl = []
    for l in det.get("failed_obligations", []):
        mm = re.search(r"\] (\S+) (\S+) -- (.*)$", l)
        jobm = None
        obl.append((mm.group(3) if mm else l)[:90])
    jobs = set()
    for v in det.get("violations", []):
        mm = re.search(r"replay=\S*/C\d+-(.+?)-[A-Za-z_0-9$]+\.[a-z_-]+(?:\.\d+)?\.json", v)
        if mm:
            jobs.add(re.sub(r"@.*", "", mm.group(1)))
    jobs = sorted(jobs)
    rep = [r for r in det.get("replays", []) if r.get("native_replay_reproduced")]
    status = "**caught**" if det.get("detected") else ("missed" if det else "not run")
    if m["id"].startswith("H"):
        status = "FALSE ALARM" if det.get("detected") else ("silent, exit 0 (as required; run against C01's check)" if det else "not run")
    rows.append("| `%s` | %s | %s | %s%s | %s |" % (m["id"], m["change"][:110], m["needs_to_manifest"][:110], status,
                                                (" (replayed natively)" if rep else ""), "; ".join(sorted(set(obl))[:2]) + (" — jobs: " + ", ".join(jobs[:4]) if jobs else "")))
print("| change | what it does | needs | quick check of its property | first failing obligations |")
print("|---|---|---|---|---|")
print("\n".join(rows))

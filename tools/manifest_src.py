HOOKS = {
    "guard": "LIBERASURECODE_VERIF",
    "enable": "none needed: contracts, loop contracts, stubs and harnesses live in /verif and are bound to the unmodified sources by goto-instrument (--enforce-contract f/c_f, --loop-contracts-file); the guard name is reserved and unused",
    "baseline_off_cmd": "cd /repo && make test",
    "source_commits": [],
    "add_only": True,
}
NOTES = ("Exit codes of ./check: 0 held, 1 VIOLATION (line printed), 2 undecided for infrastructure reasons (timeout, tool error, renamed function/loop) - never reported as a violation. "
         "Identical goto binaries + flags are not re-solved within /verif/.cache (content-addressed by the sha256 of the instrumented binary built from /repo's current tree on every run; VERIF_NOCACHE=1 disables). "
         "Known findings: /verif/known_findings.txt.")
NOT_APPLICABLE = {
    "C18": "contracts and CBMC's contract instrumentation are sequential: no thread, interleaving or happens-before semantics exists in this technique, so race-freedom under every interleaving and equality with a sequential execution cannot be stated as a postcondition or invariant, let alone discharged (DESIGN.md §7)",
}
GF_NOTE = "rs_galois_mult/div/inverse == GF(2^16)/0x1100b spec by exhaustive native enumeration (bounded stand-in, not a verifier proof); field axioms of the spec multiplier and linear algebra over a field are assumed"
CHECKS = {
    "C04": {"level": "proof",
            "text": "generator matrix == closed form L_j(r)/L_j(k) for every shape, region kernels proved for every block size and content by loop contracts, encode == GF model; the table arithmetic itself is covered by an exhaustive native stand-in over its full 2^32 domain",
            "note": GF_NOTE},
}

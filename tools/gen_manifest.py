#!/usr/bin/env python3
"""Regenerates /verif/MANIFEST.json from tools/manifest_src.py and the job table.
A property is claimed only if at least one job serves it; otherwise it is listed under not_applicable."""
import json, os, sys
HERE = os.path.dirname(os.path.dirname(os.path.abspath(__file__)))
sys.path.insert(0, HERE)
sys.path.insert(0, os.path.join(HERE, "tools"))
import importlib
import manifest_src as M

def main():
    jobs = []
    jd = os.path.join(HERE, "jobs")
    for fn in sorted(os.listdir(jd)):
        if fn.endswith(".py") and not fn.startswith("_"):
            jobs += importlib.import_module("jobs." + fn[:-3]).jobs("quick", 0)
    served = {}
    for j in jobs:
        for p in j.props:
            served.setdefault(p, set()).add(j.group)
    checks, na = [], []
    ids = [json.loads(l)["id"] for l in open(os.path.join(HERE, "properties.jsonl"))]
    for pid in ids:
        if pid in M.NOT_APPLICABLE:
            na.append({"property_id": pid, "reason": M.NOT_APPLICABLE[pid]})
            continue
        if pid not in served or pid not in M.CHECKS:
            na.append({"property_id": pid, "reason": "not claimed: no contract obligations for this property are registered in this revision of /verif (see DESIGN.md)"})
            continue
        c = M.CHECKS[pid]
        checks.append({
            "property_id": pid,
            "quick_cmd": "./check %s --tier quick" % pid,
            "thorough_cmd": "./check %s --tier thorough" % pid,
            "evidence_file": "/verif/evidence/%s.json" % pid,
            "replay_cmd_template": "./check --replay {path}",
            "engine": "cbmc-contracts",
            "level_claimed": {"category": c["level"], "text": c["text"], "design_ref": c.get("ref", "DESIGN.md §3 " + pid)},
            "level_note": c["note"],
            "technique": c.get("technique", "contract-based deductive verification of the real C code (CBMC 6.11 code contracts via goto-instrument --dfcc, per-function, callee contracts as stubs)"),
        })
    man = {
        "version": 1,
        "setup_cmd": "mkdir -p /verif/build /verif/.cache /verif/replay /verif/evidence && python3 -c 'import json' && cbmc --version >/dev/null && goto-cc --version >/dev/null",
        "hooks": M.HOOKS,
        "engines": [{"name": "cbmc-contracts", "path": "/verif/check", "serves_properties": [c["property_id"] for c in checks],
                     "kind_free_text": "CBMC 6.11.0 code contracts on the real sources of /repo: goto-cc -> goto-instrument --dfcc (enforce / replace / loop contracts from /verif/loops) -> cbmc; callee contracts as assert-requires/produce-ensures stubs; native gcc+ASan replay of counterexamples"}],
        "checks": checks,
        "notes": M.NOTES,
        "not_applicable": na,
    }
    with open(os.path.join(HERE, "MANIFEST.json"), "w") as f:
        json.dump(man, f, indent=1)
    print("claimed:", [c["property_id"] for c in checks])
    print("not applicable:", [n["property_id"] for n in na])

main()

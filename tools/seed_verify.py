#!/usr/bin/env python3
"""Confirm candidate seeded changes (patch + demonstration) against a scratch worktree of /repo HEAD:
   clean tree: demo passes;  patched tree: builds, `make test` passes, demo fails.
   usage: seed_verify.py <candidate-dir>...      (each holds patch.diff, demo.c [, isal_ref.c])
   Writes <candidate-dir>/confirm.json.  The scratch worktree (/tmp/sv-wt) is removed at the end."""
import json, os, subprocess, sys, time

WT = "/tmp/sv-wt"


def sh(cmd, cwd=None, timeout=1200, env=None):
    p = subprocess.run(["bash", "-c", cmd], cwd=cwd, stdout=subprocess.PIPE, stderr=subprocess.STDOUT, timeout=timeout, env=env)
    return p.returncode, p.stdout.decode("utf-8", "replace")


def build_demo(cdir, out):
    asan = "-fsanitize=address" if "fsanitize=address" in open(os.path.join(cdir, "demo.c")).read()[:3000] else ""
    extra = ""
    if os.path.exists(os.path.join(cdir, "isal_ref.c")):
        rc, o = sh("gcc -shared -fPIC -O2 -o %s/libisal.so.2 %s/isal_ref.c" % (out, cdir))
        if rc:
            return rc, o
    inc = " ".join("-I%s/%s" % (WT, d) for d in ("include", "include/erasurecode", "include/xor_codes", "include/rs_vand", "include/isa_l"))
    return sh("gcc -O1 -g %s %s -o %s/demo %s/demo.c -L%s/src/.libs -lerasurecode -ldl -lz -lpthread -lm" % (asan, inc, out, cdir, WT))


def run_demo(out):
    env = dict(os.environ)
    env["LD_LIBRARY_PATH"] = ":".join([WT + "/src/.libs", WT + "/src/builtin/rs_vand/.libs", WT + "/src/builtin/xor_codes/.libs",
                                       WT + "/src/builtin/null_code/.libs", out])
    env["ASAN_OPTIONS"] = "detect_leaks=0"
    try:
        return sh("%s/demo" % out, cwd=out, timeout=900, env=env)
    except subprocess.TimeoutExpired:
        return 124, "timeout"


def main():
    cands = sys.argv[1:]
    sh("git -C /repo worktree remove --force %s; rm -rf %s" % (WT, WT))
    rc, o = sh("git -C /repo worktree add --detach %s HEAD" % WT)
    assert rc == 0, o
    rc, o = sh("./autogen.sh >/dev/null 2>&1 && ./configure >/dev/null 2>&1 && make -j8 >/dev/null 2>&1", cwd=WT)
    assert rc == 0, "clean build failed"
    head = sh("git -C /repo rev-parse --short HEAD")[1].strip()
    for c in cands:
        c = os.path.abspath(c)
        out = "/tmp/sv-out"
        sh("rm -rf %s; mkdir -p %s" % (out, out))
        res = {"candidate": c, "repo_head": head, "at": time.strftime("%Y-%m-%dT%H:%M:%SZ", time.gmtime())}
        rc, o = build_demo(c, out)
        res["demo_build_rc"] = rc
        if rc:
            res["demo_build_out"] = o[-1500:]
        else:
            rc, o = run_demo(out)
            res["clean_demo_rc"], res["clean_demo_tail"] = rc, o[-400:]
            rc, o = sh("git apply --check %s/patch.diff && git apply %s/patch.diff" % (c, c), cwd=WT)
            res["apply_rc"] = rc
            if rc == 0:
                rc, o = sh("make -j8 2>&1 | tail -5", cwd=WT)
                rc2, o2 = sh("make test > %s/test.log 2>&1; echo rc=$?; grep -c ' ok$' %s/test.log" % (out, out), cwd=WT)
                res["make_test"] = o2.strip().replace("\n", " ")
                rcb, ob = build_demo(c, out)      # headers may have changed
                rc, o = run_demo(out)
                res["mutated_demo_rc"], res["mutated_demo_tail"] = rc, o[-400:]
            else:
                res["apply_out"] = o[-500:]
            sh("git checkout -- . && make -j8 >/dev/null 2>&1", cwd=WT)
        res["confirmed"] = bool(res.get("clean_demo_rc") == 0 and res.get("apply_rc") == 0 and "rc=0" in res.get("make_test", "")
                                and res.get("mutated_demo_rc", 0) != 0)
        json.dump(res, open(os.path.join(c, "confirm.json"), "w"), indent=1)
        print(os.path.basename(os.path.dirname(c)) + "/" + os.path.basename(c), "CONFIRMED" if res["confirmed"] else "NOT CONFIRMED",
              {k: v for k, v in res.items() if k.endswith("_rc") or k == "make_test"}, flush=True)
    sh("git -C /repo worktree remove --force %s; rm -rf %s /tmp/sv-out" % (WT, WT))


main()

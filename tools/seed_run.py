#!/usr/bin/env python3
"""Run the registered quick check of a seeded change's property against the change.
The change is applied in a scratch worktree which is bind-mounted over /repo inside a PRIVATE mount namespace
(unshare -m), so the check sees the mutated tree at /repo's path (identical goto binaries for untouched files ->
shared result cache) while /repo itself is never modified; several changes can be tried in parallel.
   usage: seed_run.py [-p PARALLEL] [--tier quick] [--prop Cxx] <seeded/<id>-<m> dir>...
Writes <dir>/detect.json and prints one line per change.  (Final confirmation of a detection through /repo itself:
git -C /repo apply <patch>; ./check Cxx; git -C /repo checkout -- . )"""
import argparse, json, os, re, subprocess, sys, time
from concurrent.futures import ThreadPoolExecutor

VERIF = os.path.dirname(os.path.dirname(os.path.abspath(__file__)))


def sh(cmd, timeout=7200, env=None):
    p = subprocess.run(["bash", "-c", cmd], stdout=subprocess.PIPE, stderr=subprocess.STDOUT, timeout=timeout, env=env)
    return p.returncode, p.stdout.decode("utf-8", "replace")


def one(d, tier, prop_override, workers, only=None):
    d = os.path.abspath(d)
    name = os.path.basename(d)
    prop = prop_override or name.split("-")[0]
    wt, bd, rp = "/tmp/sr-wt-" + name, "/tmp/sr-build-" + name, "/tmp/sr-replay-" + name
    sh("git -C /repo worktree remove --force %s; rm -rf %s %s %s" % (wt, wt, bd, rp))
    rc, o = sh("git -C /repo worktree add --detach %s HEAD && cd %s && git apply %s/patch.diff" % (wt, wt, d))
    res = {"change": name, "property": prop, "tier": tier, "repo_head": sh("git -C /repo rev-parse --short HEAD")[1].strip()}
    if rc:
        res["error"] = "patch does not apply to /repo HEAD: " + o[-300:]
    else:
        env = dict(os.environ, VERIF_BUILD=bd, VERIF_REPLAY=rp, VERIF_JOBS=str(workers), VERIF_MEM_GB=str(6 * workers))
        t0 = time.time()
        rc, o = sh("unshare -m bash -c 'mount --bind %s /repo && cd %s && ./check %s --tier %s --no-evidence%s'" % (wt, VERIF, prop, tier, (" --only \"%s\"" % only) if only else ""), env=env)
        if only:
            res["restricted_to_jobs_matching"] = only
        res["wall_s"] = round(time.time() - t0, 1)
        res["check_rc"] = rc
        res["violations"] = sorted(set(re.findall(r"^VIOLATION .*$", o, re.M)))[:20]
        res["failed_obligations"] = sorted(set(l.strip()[:260] for l in re.findall(r"^  failed obligation: .*$", o, re.M)))[:20]
        res["undecided"] = re.findall(r"^UNDECIDED.*$", o, re.M)[:10]
        res["summary"] = (re.findall(r"^property .*$", o, re.M) or [""])[-1]
        res["detected"] = rc == 1 and bool(res["violations"])
        # keep the replay files of the first few violations next to the change
        keep = []
        for v in res["violations"][:3]:
            m = re.search(r"replay=(\S+)", v)
            if m and os.path.exists(m.group(1)):
                try:
                    r = json.load(open(m.group(1)))
                    keep.append({"job": r.get("job"), "obligation": r.get("failed_obligation", {}).get("desc"),
                                 "inputs": r.get("counterexample_inputs"), "native_replay_reproduced": r.get("native_replay", {}).get("reproduced"),
                                 "native_replay_output": (r.get("native_replay", {}).get("output") or "")[-400:]})
                except Exception:
                    pass
        res["replays"] = keep
    json.dump(res, open(os.path.join(d, "detect.json"), "w"), indent=1, default=str)
    sh("git -C /repo worktree remove --force %s; rm -rf %s %s %s" % (wt, wt, bd, rp))
    print("%-10s %-4s %s  rc=%s  %s" % (name, prop, "DETECTED" if res.get("detected") else "missed", res.get("check_rc"), res.get("summary", res.get("error", ""))[:160]), flush=True)
    return res


def main():
    ap = argparse.ArgumentParser()
    ap.add_argument("-p", type=int, default=3)
    ap.add_argument("--tier", default="quick")
    ap.add_argument("--prop", default=None)
    ap.add_argument("--only", default=None, help="restrict the check to the jobs matching this regex (faster confirmation; recorded in detect.json)")
    ap.add_argument("dirs", nargs="+")
    a = ap.parse_args()
    workers = max(2, 15 // a.p)
    with ThreadPoolExecutor(max_workers=a.p) as ex:
        list(ex.map(lambda d: one(d, a.tier, a.prop, workers, a.only), a.dirs))


main()

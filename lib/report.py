"""Verdicts, known findings, replay files, evidence."""
import json
import os
import re
import shlex
import time

from . import vf

KNOWN = os.path.join(vf.VERIF, "known_findings.txt")
MAX_TRACED = int(os.environ.get("VERIF_MAX_TRACED", "12"))

GLOBAL_ASSUMPTIONS = [
    "CBMC 6.11.0 (goto-cc front end, goto-instrument --dfcc contract instrumentation, SAT back end) is sound for the C subset used; x86-64 LP64 little-endian data model",
    "--no-malloc-may-fail: allocation never fails (no property quantifies over OOM)",
    "sequential semantics only: no threads; pthread rwlock calls are no-ops that succeed",
]


def parse_known():
    known, fixed = [], []
    if not os.path.exists(KNOWN):
        return known, fixed
    for line in open(KNOWN):
        line = line.strip()
        if not line or line.startswith("#"):
            continue
        if line.startswith("known:"):
            d = {}
            for tok in shlex.split(line[len("known:"):]):
                if "=" in tok:
                    k, v = tok.split("=", 1)
                    d[k] = v
            known.append(d)
        elif line.startswith("fixed:"):
            fixed.append(line)
    return known, fixed


def match_known(known, prop, job, fail, inputs):
    for k in known:
        if prop not in k.get("property", "").split(","):
            continue
        if "group" in k and not re.search(k["group"], job.name):
            continue
        if "function" in k and k["function"] != fail.get("function", ""):
            continue
        if "obligation" in k and k["obligation"] not in (fail.get("desc", "") + " " + fail.get("id", "")):
            continue
        if "when" in k:
            env = dict(inputs or {})
            if isinstance(job.case, dict):
                env.update(job.case)
            try:
                if not eval(k["when"], {"__builtins__": {}}, env):
                    continue
            except Exception:
                continue
        return k
    return None


def safe(s):
    return re.sub(r"[^A-Za-z0-9_.@=,-]+", "_", s)[:150]


LIB_SRC = ["src/erasurecode.c", "src/erasurecode_helpers.c", "src/erasurecode_preprocessing.c",
           "src/erasurecode_postprocessing.c", "src/utils/chksum/crc32.c", "src/utils/chksum/alg_sig.c",
           "src/backends/null/null.c", "src/backends/xor/flat_xor_hd.c", "src/backends/jerasure/jerasure_rs_vand.c",
           "src/backends/jerasure/jerasure_rs_cauchy.c", "src/backends/isa-l/isa_l_common.c",
           "src/backends/isa-l/isa_l_rs_vand.c", "src/backends/isa-l/isa_l_rs_cauchy.c", "src/backends/shss/shss.c",
           "src/backends/rs_vand/liberasurecode_rs_vand.c", "src/backends/phazrio/libphazr.c",
           "src/builtin/xor_codes/xor_code.c", "src/builtin/xor_codes/xor_hd_code.c"]
BUILTIN_SO = {"libnullcode.so.1": ["src/builtin/null_code/null_code.c"],
              "libXorcode.so.1": ["src/builtin/xor_codes/xor_code.c", "src/builtin/xor_codes/xor_hd_code.c"],
              "liberasurecode_rs_vand.so.1": ["src/builtin/rs_vand/rs_galois.c", "src/builtin/rs_vand/liberasurecode_rs_vand.c"]}
SAN = ["-g", "-O1", "-fsanitize=address,undefined", "-fno-sanitize-recover=undefined", "-w"]


def build_builtin_sos(wd, incs, dfl):
    """the three dlopen()ed built-in code libraries, from /repo's current sources, with sanitizers"""
    for so, srcs in BUILTIN_SO.items():
        cmd = ["gcc", "-shared", "-fPIC"] + SAN + ["-o", os.path.join(wd, so)] + dfl + incs + [vf.repo_path(x) for x in srcs]
        rc, out, err, w = vf.sh(cmd, cwd=wd, timeout=300)
        if rc != 0:
            return "building %s failed: %s" % (so, err[-800:])
    return None


def native_replay(job, fail, inputs, wd):
    """run the job's native replay program (real /repo sources, gcc + ASan/UBSan) on the
    counterexample inputs. returns dict(reproduced=bool|None, output=str, cmd=str)"""
    rp = job.replay
    if not rp:
        return {"reproduced": None, "output": "no native replay program for this obligation family", "cmd": ""}
    incs = []
    for i in vf.REPO_INCS:
        incs += ["-I", vf.repo_path(i)]
    incs += ["-I", os.path.join(vf.VERIF, "specs"), "-I", os.path.join(vf.VERIF, "harness"), "-I", vf.REPO, "-I", os.path.join(vf.VERIF, "harness", "fallback")]
    defs = dict(vf.REPO_DEFS)
    defs.update(job.defines)
    defs.update(rp.get("defines", {}))
    dfl = ["-D%s=%s" % (k, v) for k, v in sorted(defs.items())]
    if rp.get("full_lib"):
        e = build_builtin_sos(wd, incs, dfl)
        if e:
            return {"reproduced": None, "output": e, "cmd": ""}
        rsrc = LIB_SRC
    else:
        rsrc = rp.get("repo_src", job.repo_src)
    srcs = [os.path.join(vf.VERIF, s) for s in rp["src"]] + [vf.repo_path(s) for s in rsrc]
    exe = os.path.join(wd, "replay_prog")
    cmd = ["gcc"] + SAN + ["-o", exe] + dfl + job.cflags + incs + srcs + rp.get("libs", ["-lz", "-ldl", "-lpthread", "-lm"])
    rc, out, err, w = vf.sh(cmd, cwd=wd, timeout=300)
    if rc != 0:
        return {"reproduced": None, "output": "native replay build failed: " + err[-1500:], "cmd": " ".join(cmd)}
    try:
        argv = rp["args"](inputs or {}, job.case, fail)
    except Exception as e:
        return {"reproduced": None, "output": "counterexample does not carry the inputs the replay needs (%r)" % (e,), "cmd": ""}
    if argv is None:
        return {"reproduced": None, "output": "counterexample does not carry the inputs the replay needs", "cmd": ""}
    env = dict(os.environ)
    env["ASAN_OPTIONS"] = "detect_leaks=1:abort_on_error=0"
    env["LD_LIBRARY_PATH"] = wd + ":" + env.get("LD_LIBRARY_PATH", "")
    env.update(rp.get("env", {}))
    rc, out, err, w = vf.sh([exe] + [str(x) for x in argv], cwd=wd, timeout=300, env=env)
    txt = (out + err)[-3000:]
    reproduced = (rc != 0)
    return {"reproduced": reproduced, "output": txt, "cmd": " ".join([exe] + [str(x) for x in argv]), "rc": rc}


def finish(prop, tier, seed, results, wall, write_evidence=True):
    known, fixed = parse_known()
    os.makedirs(vf.REPLAY, exist_ok=True)
    violations, known_hits, infra = [], [], []
    traced = 0
    for r in results:
        if r.status == "error":
            infra.append(r)
            continue
        if r.status != "fail":
            continue
        # group failures: one report per (function, description)
        seen = set()
        for fail in r.failed:
            if fail["where"] != "repo" and fail["kind"] == "safety":
                continue  # spec-side noise next to a real failure
            key = (fail.get("function"), fail.get("desc"))
            if key in seen:
                continue
            seen.add(key)
            trace = None
            inputs = fail.get("input") if r.job.kind == "native" else None
            # counterexample extraction re-runs the verifier for the failed obligation; it is done for the first
            # MAX_TRACED failures of a run (every further one is still reported, with the verifier output only)
            if r.job.kind == "cbmc" and traced < MAX_TRACED:
                traced += 1
                trace = vf.get_trace(r.job, r, fail)
                inputs = vf.trace_inputs(trace) if trace else None
            k = match_known(known, prop, r.job, fail, inputs if isinstance(inputs, dict) else {})
            if k:
                known_hits.append((r, fail, k))
                continue
            wd = os.path.dirname(r.log)
            if r.job.kind == "cbmc" and (trace is not None or traced < MAX_TRACED):
                rep = native_replay(r.job, fail, inputs, wd)
            elif r.job.kind == "cbmc":
                rep = {"reproduced": None, "output": "counterexample not extracted (more than %d failed obligations in this run)" % MAX_TRACED, "cmd": ""}
            else:
                rep = {"reproduced": True, "output": str(inputs), "cmd": r.cmd}
            path = os.path.join(vf.REPLAY, "%s-%s-%s.json" % (prop, safe(r.job.name), safe(fail["id"])))
            tail = ""
            if trace:
                last = [s for s in trace if s.get("stepType") in ("assignment", "failure")][-12:]
                tail = [{"step": s.get("stepType"), "lhs": s.get("lhs"), "value": vf.render_value(s.get("value", {})),
                         "loc": "%s:%s" % (s.get("sourceLocation", {}).get("file", ""), s.get("sourceLocation", {}).get("line", ""))}
                        for s in last]
            with open(path, "w") as f:
                json.dump({"property": prop, "job": r.job.name, "tier": tier, "seed": seed, "title": r.job.title, "case": r.job.case,
                           "failed_obligation": fail, "verifier": r.backend, "verifier_cmd": r.cmd,
                           "counterexample_inputs": inputs, "trace_tail": tail,
                           "native_replay": rep,
                           "how_to_replay": "cd /verif && ./check --replay " + path}, f, indent=1, default=str)
            violations.append((r, fail, path, rep))
    # ---- output
    for r, fail, k in known_hits:
        print("KNOWN-FINDING: property=%s %s: %s in %s (job %s)%s" % (
            prop, k.get("note", ""), fail["desc"][:120], fail.get("function", ""), r.job.name,
            " when " + k["when"] if "when" in k else ""))
    for r, fail, path, rep in violations:
        suffix = "" if rep.get("reproduced") else " no-failing-input-found"
        print("  failed obligation: %s [%s] %s:%s %s -- %s" % (fail["id"], fail["kind"], fail.get("file", ""),
                                                              fail.get("line", ""), fail.get("function", ""), fail["desc"][:160]))
        print("VIOLATION property=%s replay=%s%s" % (prop, path, suffix))
    # thorough tier: a case that ran out of time or memory (or was not started within the run's budget) was NOT EXPLORED; it is
    # listed here and in the evidence, but it does not make the run fail (exit 0 = held on everything explored).  Every other
    # infrastructure problem (tool error, missing function or obligation, silent vacuity guard) still exits 2, and in the quick
    # tier resource limits do too.
    def resource_limited(r):
        return r.error.startswith(("timeout", "not started", "cbmc produced no result set"))
    not_explored = [r for r in infra if tier == "thorough" and resource_limited(r)]
    infra_hard = [r for r in infra if r not in not_explored]
    for r in not_explored:
        print("NOT EXPLORED (resource limit, thorough tier): job %s: %s" % (r.job.name, r.error))
    for r in infra_hard:
        print("UNDECIDED (infrastructure): job %s: %s  [log %s]" % (r.job.name, r.error, r.log))
    if os.environ.get("VERIF_VERBOSE"):
        for r in sorted(results, key=lambda r: -r.wall):
            print("  %-8s %-55s %5d obl %7.1fs%s" % (r.status, r.job.name, r.obligations, r.wall, " (cached)" if r.cached else ""))
    npass = sum(1 for r in results if r.status == "pass")
    tot_ob = sum(r.obligations for r in results)
    tot_dis = sum(r.discharged for r in results)
    print("property %s tier %s: %d jobs (%d pass, %d fail, %d undecided), %d obligations, %d discharged, "
          "%d known findings, %d violations, %.0fs wall, %d cached" % (
              prop, tier, len(results), npass, sum(1 for r in results if r.status == "fail"), len(infra),
              tot_ob, tot_dis, len(known_hits), len(violations), wall, sum(1 for r in results if r.cached)))
    if write_evidence and re.match(r"^C\d+$", prop):
        write_evid(prop, tier, seed, results, wall, violations, known_hits, infra)
    if violations:
        return 1
    if infra_hard:
        return 2
    return 0


def load_manifest_level(prop):
    try:
        m = json.load(open(os.path.join(vf.VERIF, "MANIFEST.json")))
        for c in m["checks"]:
            if c["property_id"] == prop:
                return c["level_claimed"]["category"]
    except Exception:
        pass
    return "other"


def write_evid(prop, tier, seed, results, wall, violations, known_hits, infra):
    os.makedirs(vf.EVID, exist_ok=True)
    level = load_manifest_level(prop)
    groups = {}
    for r in results:
        g = groups.setdefault(r.job.group, {"title": r.job.title, "layer": r.job.layer, "strength": r.job.strength,
                                            "bound": r.job.bound, "cases": 0, "cases_passed": 0, "obligations": 0,
                                            "discharged": 0, "solver_s": 0.0, "functions_under_contract": set(),
                                            "callee_contracts_used": set(), "backend": r.backend, "undecided": 0,
                                            "kind": r.job.kind})
        g["cases"] += 1
        g["cases_passed"] += 1 if r.status == "pass" else 0
        g["undecided"] += 1 if r.status == "error" else 0
        g["obligations"] += r.obligations
        g["discharged"] += r.discharged
        g["solver_s"] += r.solver_s
        g["functions_under_contract"].update(r.job.functions)
        g["callee_contracts_used"].update(r.job.replaced)
    for g in groups.values():
        g["functions_under_contract"] = sorted(g["functions_under_contract"])
        g["callee_contracts_used"] = sorted(g["callee_contracts_used"])
        g["solver_s"] = round(g["solver_s"], 1)
    obligations = sum(r.obligations for r in results if r.job.kind == "cbmc")
    discharged = sum(r.discharged for r in results if r.job.kind == "cbmc")
    samples = []
    for r in results:
        for s in r.samples[:1]:
            samples.append({"job": r.job.name, "case": r.job.case, "obligation": s})
        if len(samples) >= 12:
            break
    functions = sorted({f for r in results for f in r.job.functions})
    assumptions = list(GLOBAL_ASSUMPTIONS)
    for r in results:
        for a in r.job.assumptions:
            if a not in assumptions:
                assumptions.append(a)
    strengths = {}
    for g in groups.values():
        strengths[g["strength"]] = strengths.get(g["strength"], 0) + 1
    bounded = sorted({"%s: %s" % (name, g["bound"]) for name, g in groups.items() if g["strength"] in ("B", "native") and g["bound"]})
    by_class = {}
    for r in results:
        for k, v in r.by_class.items():
            by_class[k] = by_class.get(k, 0) + v
    cov = {
        "obligations": obligations,
        "discharged": discharged,
        "checker_cmd": "goto-cc <files of /repo> + /verif/harness -> goto-instrument --dfcc (enforce/replace/loop contracts) -> cbmc " + " ".join(vf.SAFETY_FLAGS),
        "trusted_base": assumptions,
        "explanation": ("Contract obligations on the real functions of /repo discharged by CBMC function by function; "
                        "strength per obligation group: Pinf = unbounded (loop contracts / loop-free, symbolic sizes), "
                        "P# = complete finite case split, B = bounded (bound stated), native = exhaustive native stand-in "
                        "(not counted in obligations/discharged). Groups by strength: %s. Bounded parts: %s"
                        % (json.dumps(strengths), "; ".join(bounded) or "none")),
        "evaluations": len(results),
        "distinct_nontrivial": len({r.job.name for r in results if r.obligations > 0}),
        "rule": "one evaluation = one verifier run (harness x case) generating >0 obligations; distinct by job name (function under contract x case parameters)",
        "samples": samples or [{"note": "no obligation discharged"}],
        "exhaustive": all(g["strength"] in ("Pinf", "P#") for g in groups.values()) and not infra,
        "functions_under_contract": functions,
        "obligation_groups": groups,
        "obligations_by_kind": by_class,
        "jobs": len(results),
        "jobs_passed": sum(1 for r in results if r.status == "pass"),
        "jobs_undecided": [{"job": r.job.name, "why": r.error} for r in infra],
        "jobs_cached": sum(1 for r in results if r.cached),
        "solver_time_s": round(sum(r.solver_s for r in results), 1),
        "back_ends": sorted({r.backend for r in results if r.backend}),
        "known_findings_reported": [{"job": r.job.name, "obligation": f["desc"][:200], "note": k.get("note", "")} for r, f, k in known_hits],
        "violations_reported": [{"job": r.job.name, "obligation": f["id"], "desc": f["desc"][:200], "replay": p,
                                 "reproduced_natively": rep.get("reproduced")} for r, f, p, rep in violations],
    }
    ev = {"property_id": prop, "tier": tier, "seed": seed, "level": level, "coverage": cov,
          "assumptions": assumptions, "wall_s": round(wall, 1), "violations": len(violations)}
    with open(os.path.join(vf.EVID, prop + ".json"), "w") as f:
        json.dump(ev, f, indent=1, default=str)


def replay_file(path):
    """re-run the native replay of a recorded violation against /repo's CURRENT tree (exit 1 = the failure reproduces)"""
    import importlib
    import tempfile
    d = json.load(open(path))
    print(json.dumps({k: d.get(k) for k in ("property", "job", "failed_obligation", "counterexample_inputs")}, indent=1, default=str))
    job = None
    jd = os.path.join(vf.VERIF, "jobs")
    for tier in (d.get("tier", "quick"), "quick", "thorough"):
        for fn in sorted(os.listdir(jd)):
            if fn.endswith(".py") and not fn.startswith("_"):
                for j in importlib.import_module("jobs." + fn[:-3]).jobs(tier, int(d.get("seed", 0) or 0)):
                    if j.name == d.get("job"):
                        job = j
        if job:
            break
    rep = d.get("native_replay", {})
    if job is None or not job.replay:
        print("no native replay program for this obligation family (the violation was reported with no-failing-input-found); "
              "verifier output recorded at check time:\n%s" % (rep.get("output", "")))
        return 1 if rep.get("reproduced") else 0
    wd = tempfile.mkdtemp(prefix="replay-", dir=vf.BUILD if os.path.isdir(vf.BUILD) else None)
    res = native_replay(job, d.get("failed_obligation", {}), d.get("counterexample_inputs") or {}, wd)
    print("replay command: %s\n%s" % (res.get("cmd", ""), res.get("output", "")))
    import shutil
    shutil.rmtree(wd, ignore_errors=True)
    if res.get("reproduced") is None:
        print("replay could not be run; recorded at check time: reproduced=%s" % rep.get("reproduced"))
        return 1 if rep.get("reproduced") else 0
    print("REPRODUCED on the current tree" if res["reproduced"] else "not reproduced on the current tree")
    return 1 if res["reproduced"] else 0

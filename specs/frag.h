/* Independent specification of the fragment wire format (properties C07, C09-C12):
 * golden offsets, little-endian field readers, header acceptance predicate, metadata decoding
 * and the per-fragment validation verdict.  Shares no code or struct definition with /repo. */
#ifndef SPEC_FRAG_H
#define SPEC_FRAG_H
#include <stdint.h>
#define SPEC_HDR_LEN 80
#define SPEC_META_LEN 59
#define SPEC_OFF_IDX 0
#define SPEC_OFF_SIZE 4
#define SPEC_OFF_BEMETA 8
#define SPEC_OFF_ORIG 12
#define SPEC_OFF_CT 20
#define SPEC_OFF_CHKSUM 21
#define SPEC_OFF_MISMATCH 53
#define SPEC_OFF_BEID 54
#define SPEC_OFF_BEVER 55
#define SPEC_OFF_MAGIC 59
#define SPEC_OFF_LIBVER 63
#define SPEC_OFF_METACRC 67
#define SPEC_OFF_PAD 71
#define SPEC_MAGIC 0x0b0c5eccu
#define SPEC_VERSION(x, y, z) (((x) << 16) | ((y) << 8) | (z))
#define SPEC_LIBVER SPEC_VERSION(1, 6, 4)        /* the pinned library version */
#define SPEC_CT_NONE 1
#define SPEC_CT_CRC32 2
#define SPEC_CT_MD5 3
static inline uint32_t spec_le32(const unsigned char *b, int off)
{ return (uint32_t)b[off] | ((uint32_t)b[off + 1] << 8) | ((uint32_t)b[off + 2] << 16) | ((uint32_t)b[off + 3] << 24); }
static inline uint32_t spec_be32(const unsigned char *b, int off)
{ return (uint32_t)b[off + 3] | ((uint32_t)b[off + 2] << 8) | ((uint32_t)b[off + 1] << 16) | ((uint32_t)b[off] << 24); }
static inline uint64_t spec_le64(const unsigned char *b, int off)
{ return (uint64_t)spec_le32(b, off) | ((uint64_t)spec_le32(b, off + 4) << 32); }
static inline uint64_t spec_be64(const unsigned char *b, int off)
{ return (uint64_t)spec_be32(b, off + 4) | ((uint64_t)spec_be32(b, off) << 32); }
/* 0 = native (little-endian) magic, 1 = byte-swapped magic, -1 = neither */
static inline int spec_hdr_order(const unsigned char *h)
{
  if (spec_le32(h, SPEC_OFF_MAGIC) == SPEC_MAGIC) return 0;
  if (spec_be32(h, SPEC_OFF_MAGIC) == SPEC_MAGIC) return 1;
  return -1;
}
static inline uint32_t spec_rd32(const unsigned char *h, int off, int order) { return order ? spec_be32(h, off) : spec_le32(h, off); }
static inline uint64_t spec_rd64(const unsigned char *h, int off, int order) { return order ? spec_be64(h, off) : spec_le64(h, off); }
/* C09: accepted iff magic in either order, version != 0, and (version < 1.2.0 or stored CRC is the
 * standard or the historical CRC-32 of bytes 0..58).  crc_std / crc_leg are those two CRC values. */
static inline int spec_hdr_accept(const unsigned char *h, uint32_t crc_std, uint32_t crc_leg)
{
  int order = spec_hdr_order(h);
  if (spec_le32(h, SPEC_OFF_LIBVER) == 0) return 0;
  if (order < 0) return 0;
  uint32_t ver = spec_rd32(h, SPEC_OFF_LIBVER, order);
  uint32_t stored = spec_rd32(h, SPEC_OFF_METACRC, order);
  if (ver < SPEC_VERSION(1, 2, 0)) return 1;
  return stored == crc_std || stored == crc_leg;
}
#endif

/* Closed form of the systematic Vandermonde generator of liberasurecode_rs_vand
 * (property C04): rows 0..k-1 are the identity; parity row r (k <= r < k+m), data column j:
 *     L_j(r) / L_j(k),   L_j(x) = prod_{i<k, i!=j} (x xor i)      over GF(2^16)/0x1100b */
#ifndef SPEC_RSV_H
#define SPEC_RSV_H
#include "gf16.h"
static inline unsigned rsv_coeff(int k, int r, int j)
{
  unsigned num = 1, den = 1;
  if (r < k) return r == j;
  for (int i = 0; i < k; i++)
    if (i != j) { num = gf16_mul(num, (unsigned)(r ^ i)); den = gf16_mul(den, (unsigned)(k ^ i)); }
  return gf16_mul(num, gf16_inv(den));
}
#endif

/* Independent specification of the GF(2^16) arithmetic of the built-in
 * Reed-Solomon backend: polynomial basis, primitive polynomial 0x1100b,
 * shift-and-xor multiplication.  No tables, shares no code with /repo. */
#ifndef SPEC_GF16_H
#define SPEC_GF16_H
#define SPEC_GF16_POLY 0x1100bu
static inline unsigned gf16_mul(unsigned a, unsigned b)
{
  unsigned r = 0;
  a &= 0xffffu; b &= 0xffffu;
  for (int i = 0; i < 16; i++) {
    if (b & 1u) r ^= a;
    b >>= 1;
    a <<= 1;
    if (a & 0x10000u) a ^= SPEC_GF16_POLY;
  }
  return r & 0xffffu;
}
/* a^(2^16-2) by square-and-multiply: the inverse of a non-zero element */
static inline unsigned gf16_inv(unsigned a)
{
  unsigned r = 1, s = a & 0xffffu;
  unsigned e = 0xfffeu;
  for (int i = 0; i < 16; i++) {
    if (e & 1u) r = gf16_mul(r, s);
    s = gf16_mul(s, s);
    e >>= 1;
  }
  return r;
}
static inline unsigned gf16_div(unsigned a, unsigned b) { return gf16_mul(a, gf16_inv(b)); }
#endif

/* Independent bit-serial specifications of the two CRC-32 variants in the
 * fragment format: the standard reflected CRC-32 (poly 0xedb88320, init and
 * final xor 0xffffffff) and the historical liberasurecode variant, which is
 * the same algorithm computed in a *signed* 32-bit register whose ">> 8" is
 * sign-extended from bit 23 and whose input byte is a signed char. */
#ifndef SPEC_CRC_H
#define SPEC_CRC_H
#include <stdint.h>
#include <stddef.h>
static inline uint32_t spec_crc_byte_tab(uint32_t x)   /* table entry for index x (0..255) */
{
  uint32_t c = x & 0xffu;
  for (int k = 0; k < 8; k++) c = (c & 1u) ? (0xedb88320u ^ (c >> 1)) : (c >> 1);
  return c;
}
static inline uint32_t spec_crc32_step(uint32_t reg, unsigned char byte)
{
  return spec_crc_byte_tab((reg ^ byte) & 0xffu) ^ (reg >> 8);
}
/* legacy: reg is the register *after* the initial xor; byte enters sign-extended,
 * and (reg >> 8) has bit 23 replicated into bits 24..31 */
static inline uint32_t spec_crc32_legacy_step(uint32_t reg, unsigned char byte)
{
  uint32_t sh = (reg >> 8) & 0x00ffffffu;
  if (sh & 0x00800000u) sh |= 0xff000000u;
  return spec_crc_byte_tab((reg ^ (uint32_t)(int32_t)(signed char)byte) & 0xffu) ^ sh;
}
static inline uint32_t spec_crc32(const unsigned char *p, size_t n)
{
  uint32_t reg = 0xffffffffu;
  for (size_t i = 0; i < n; i++) reg = spec_crc32_step(reg, p[i]);
  return reg ^ 0xffffffffu;
}
static inline uint32_t spec_crc32_legacy(const unsigned char *p, size_t n)
{
  uint32_t reg = 0xffffffffu;
  for (size_t i = 0; i < n; i++) reg = spec_crc32_legacy_step(reg, p[i]);
  return reg ^ 0xffffffffu;
}
#endif

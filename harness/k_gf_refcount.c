/* C14 (instances of the Reed-Solomon backend share the GF(2^16) tables): reference-count protocol of
 * rs_galois_init_tables / rs_galois_deinit_tables (src/builtin/rs_vand/rs_galois.c), proved as STEP contracts from an
 * ARBITRARY well-formed state (count c >= 0 of live users; tables allocated iff c > 0), so for any history of creates and
 * destroys in any order:
 *   init:   c' = c+1; c > 0 => tables not reallocated and not written (other instances keep working);
 *                     c == 0 => both tables allocated, ilog_table = middle third of its block, every write in bounds
 *   deinit: c >= 1 => c' = c-1; tables freed exactly when c' == 0, otherwise untouched;  c == 0 => no effect (no double free)
 * The first init (c == 0) runs the 65535-iteration table-filling loop, which is outside CBMC's reach (unwinding: > 30 min;
 * loop contract over the two 256 KB / 768 KB heap tables: the dfcc write-set instrumentation does not finish in 24 GB); that
 * step is executed natively by gf.native, which allocates the tables through the real function and checks every value.
 * This obligation covers every OTHER step of the protocol. */
#include "common.h"
#include <stdlib.h>
extern int *log_table, *ilog_table, *ilog_table_begin;
extern int init_counter;      /* file-local in rs_galois.c: that file is compiled with -Dstatic= for this obligation (jobs/kernels.py) */
#define COUNTER init_counter
void rs_galois_init_tables(void);
void rs_galois_deinit_tables(void);
void harness(void)
{
  int in_c = nondet_int();
  __CPROVER_assume(0 <= in_c && in_c < 0x7fffffff);
  COUNTER = in_c;
  int *l0 = NULL, *b0 = NULL;
  if (in_c > 0) { l0 = malloc(sizeof(int) * 65536); b0 = malloc(sizeof(int) * 65536 * 3); }
  log_table = l0; ilog_table_begin = b0; ilog_table = b0 ? b0 + 65535 : NULL;
  int in_x = nondet_int(); __CPROVER_assume(0 <= in_x && in_x < 65536);        /* any table cell */
  int v_log = in_c > 0 ? l0[in_x] : 0, v_ilog = in_c > 0 ? b0[in_x] : 0;
  if (nondet_bool()) {
#ifndef WITH_FIRST_INIT
    __CPROVER_assume(in_c > 0);     /* the first init (c == 0) runs the 65535-iteration table-filling loop: executed natively by gf.native, which also checks every table value */
#endif
    rs_galois_init_tables();
    __CPROVER_assert(COUNTER == in_c + 1, "C14: init takes exactly one reference");
    if (in_c > 0) {
      __CPROVER_assert(log_table == l0 && ilog_table_begin == b0 && ilog_table == b0 + 65535, "C14: tables of the live instances are not reallocated by another create");
      __CPROVER_assert(l0[in_x] == v_log && b0[in_x] == v_ilog, "C14: tables of the live instances are not written by another create");
      CANARY("init while in use");
    }
#ifdef WITH_FIRST_INIT
    else {
      __CPROVER_assert(log_table != NULL && ilog_table_begin != NULL && ilog_table == ilog_table_begin + 65535, "C14: the first create allocates both tables");
      __CPROVER_assert(__CPROVER_rw_ok(log_table, sizeof(int) * 65536) && __CPROVER_rw_ok(ilog_table_begin, sizeof(int) * 65536 * 3), "rs_galois_init_tables.ensures: table sizes");
      CANARY("first init");
    }
#endif
  } else {
    rs_galois_deinit_tables();
    if (in_c == 0) {
      __CPROVER_assert(COUNTER == 0 && log_table == NULL && ilog_table_begin == NULL, "C14: deinit without a live user has no effect (no double free)");
      CANARY("deinit when unused");
    } else {
      __CPROVER_assert(COUNTER == in_c - 1, "C14: deinit drops exactly one reference");
      if (in_c > 1) {
        __CPROVER_assert(log_table == l0 && ilog_table_begin == b0, "C14: destroying one instance leaves the tables of the others in place");
        __CPROVER_assert(l0[in_x] == v_log && b0[in_x] == v_ilog, "C14: destroying one instance leaves the tables of the others intact");
        CANARY("deinit while others live");
      } else {
        __CPROVER_assert(log_table == NULL && ilog_table_begin == NULL, "C14/C16: the last destroy releases both tables");
        CANARY("last deinit");
      }
    }
  }
  if (COUNTER > 0) { free(log_table); free(ilog_table_begin); }     /* what the remaining users will release */
  CANARY("harness end");
}

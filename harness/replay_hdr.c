/* Native replay for the header / metadata / validation obligations (C09-C12) against the real
 * library code (all of /repo's library sources, gcc + ASan/UBSan).
 * argv: <mode> <80 header bytes as hex> <meta_rel> <pay_rel>
 *   mode      hdr | meta | twin
 *   meta_rel  relation of the stored metadata CRC to the CRCs of bytes 0..58: std | leg | none | asis
 *   pay_rel   relation of stored chksum[0] to the payload CRCs:               std | leg | none | asis
 * The verifier's counterexample treats the CRC values as ghosts; the replay concretises it: it keeps
 * every header byte of the counterexample, attaches a payload (size field reduced modulo 4096),
 * and re-seals the stored checksums so that the SAME relations hold for the real CRCs.
 * It then compares the real function with the specification.  exit 1 + REPRODUCED on disagreement. */
#include <stdio.h>
#include <stdlib.h>
#include <string.h>
#include <stdint.h>
#include "frag.h"
#include "crc.h"
#include "erasurecode.h"
int is_invalid_fragment_header(fragment_header_t *header);
static void wr32(unsigned char *h, int off, int order, uint32_t v)
{ for (int b = 0; b < 4; b++) h[off + (order ? 3 - b : b)] = (unsigned char)(v >> (8 * b)); }
static int bad;
#define CHECK(c, ...) do { if (!(c)) { printf("REPRODUCED: "); printf(__VA_ARGS__); printf("\n"); bad = 1; } } while (0)
static uint32_t seal(unsigned char *frag, const char *meta_rel, const char *pay_rel, uint32_t *pstd, uint32_t *pleg, uint32_t *mstd, uint32_t *mleg)
{
  int order = spec_hdr_order(frag); int o = order < 0 ? 0 : order;
  uint32_t size = spec_rd32(frag, SPEC_OFF_SIZE, o);
  *pstd = spec_crc32(frag + 80, size); *pleg = spec_crc32_legacy(frag + 80, size);
  if (!strcmp(pay_rel, "std")) wr32(frag, SPEC_OFF_CHKSUM, o, *pstd);
  else if (!strcmp(pay_rel, "leg")) wr32(frag, SPEC_OFF_CHKSUM, o, *pleg);
  else if (!strcmp(pay_rel, "none")) { uint32_t v = spec_rd32(frag, SPEC_OFF_CHKSUM, o); if (v == *pstd || v == *pleg) wr32(frag, SPEC_OFF_CHKSUM, o, *pstd ^ 0x5a5a5a5au); }
  *mstd = spec_crc32(frag, 59); *mleg = spec_crc32_legacy(frag, 59);
  if (!strcmp(meta_rel, "std")) wr32(frag, SPEC_OFF_METACRC, o, *mstd);
  else if (!strcmp(meta_rel, "leg")) wr32(frag, SPEC_OFF_METACRC, o, *mleg);
  else if (!strcmp(meta_rel, "none")) { uint32_t v = spec_rd32(frag, SPEC_OFF_METACRC, o); if (v == *mstd || v == *mleg) wr32(frag, SPEC_OFF_METACRC, o, *mstd ^ 0x5a5a5a5au); }
  return size;
}
static void check_meta(unsigned char *frag, const char *tag, fragment_metadata_t *md, int *rcp)
{
  uint32_t pstd, pleg, mstd, mleg;
  int order = spec_hdr_order(frag);
  uint32_t size = order < 0 ? 0 : spec_rd32(frag, SPEC_OFF_SIZE, order);
  pstd = spec_crc32(frag + 80, size); pleg = spec_crc32_legacy(frag + 80, size);
  mstd = spec_crc32(frag, 59); mleg = spec_crc32_legacy(frag, 59);
  unsigned char copy[80]; memcpy(copy, frag, 80);
  int acc = spec_hdr_accept(frag, mstd, mleg);
  int rc = liberasurecode_get_fragment_metadata((char *)frag, md);
  *rcp = rc;
  CHECK(!memcmp(copy, frag, 80), "%s: metadata query modified the fragment", tag);
  CHECK((rc == 0) == (acc == 1), "%s: metadata query rc=%d but spec acceptance=%d", tag, rc, acc);
  if (rc != 0 || !acc) { CHECK(acc || rc == -EBADHEADER, "%s: rc=%d instead of -EBADHEADER", tag, rc); return; }
  CHECK(md->idx == spec_rd32(frag, 0, order), "%s: idx %u want %u", tag, md->idx, spec_rd32(frag, 0, order));
  CHECK(md->size == size, "%s: size", tag);
  CHECK(md->frag_backend_metadata_size == spec_rd32(frag, 8, order), "%s: backend metadata size", tag);
  CHECK(md->orig_data_size == spec_rd64(frag, 12, order), "%s: orig_data_size", tag);
  CHECK(md->chksum_type == frag[20], "%s: chksum_type returned %u, header byte says %u (byte order %s)", tag, md->chksum_type, frag[20], order ? "swapped" : "native");
  for (int i = 0; i < 8; i++) CHECK(md->chksum[i] == spec_rd32(frag, 21 + 4 * i, order), "%s: chksum[%d]", tag, i);
  CHECK(md->backend_id == frag[54], "%s: backend id", tag);
  CHECK(md->backend_version == spec_rd32(frag, 55, order), "%s: backend version", tag);
  if (frag[20] == SPEC_CT_CRC32) {
    uint32_t st = spec_rd32(frag, 21, order);
    CHECK(md->chksum_mismatch == (st != pstd && st != pleg), "%s: chksum_mismatch=%u but payload CRC %s the stored value", tag, md->chksum_mismatch, (st != pstd && st != pleg) ? "differs from" : "equals");
  }
}
int main(int argc, char **argv)
{
  if (argc < 5 || strlen(argv[2]) < 160) { printf("usage\n"); return 3; }
  unsigned char *frag = calloc(1, 80 + 4096 + 16);
  for (int i = 0; i < 80; i++) { unsigned v; sscanf(argv[2] + 2 * i, "%2x", &v); frag[i] = (unsigned char)v; }
  int order = spec_hdr_order(frag); int o = order < 0 ? 0 : order;
  wr32(frag, SPEC_OFF_SIZE, o, spec_rd32(frag, SPEC_OFF_SIZE, o) % 4096);
  for (int i = 0; i < 4096; i++) frag[80 + i] = (unsigned char)(i * 131 + 7);
  uint32_t pstd, pleg, mstd, mleg;
  seal(frag, argv[3], argv[4], &pstd, &pleg, &mstd, &mleg);
  fragment_metadata_t md, md2; int rc, rc2;
  if (!strcmp(argv[1], "hdr")) {
    unsigned char copy[80]; memcpy(copy, frag, 80);
    int r = is_invalid_fragment_header((fragment_header_t *)frag);
    CHECK((r == 0) == (spec_hdr_accept(copy, mstd, mleg) == 1), "is_invalid_fragment_header=%d, spec acceptance=%d", r, spec_hdr_accept(copy, mstd, mleg));
    CHECK(!memcmp(copy, frag, 80), "header modified");
  } else if (!strcmp(argv[1], "meta")) {
    check_meta(frag, "metadata query", &md, &rc);
  } else if (!strcmp(argv[1], "twin")) {
    check_meta(frag, "native fragment", &md, &rc);
    unsigned char *tw = malloc(80 + 4096 + 16); memcpy(tw, frag, 80 + 4096);
    static const int f4[] = {0, 4, 8, 21, 25, 29, 33, 37, 41, 45, 49, 55, 59, 63, 67};
    for (int f = 0; f < 15; f++) for (int b = 0; b < 4; b++) tw[f4[f] + b] = frag[f4[f] + 3 - b];
    for (int b = 0; b < 8; b++) tw[12 + b] = frag[12 + 7 - b];
    if (spec_le32(frag, SPEC_OFF_LIBVER) >= SPEC_VERSION(1, 2, 0)) wr32(tw, SPEC_OFF_METACRC, 1, spec_crc32(tw, 59));
    check_meta(tw, "opposite-endian twin", &md2, &rc2);
    CHECK(rc == rc2, "verdicts differ: native rc=%d twin rc=%d", rc, rc2);
    if (rc == 0 && rc2 == 0) {
      CHECK(md.chksum_type == md2.chksum_type, "checksum type: native %u, twin %u", md.chksum_type, md2.chksum_type);
      CHECK(md.chksum_mismatch == md2.chksum_mismatch, "mismatch flag: native %u, twin %u", md.chksum_mismatch, md2.chksum_mismatch);
      CHECK(md.idx == md2.idx && md.size == md2.size && md.orig_data_size == md2.orig_data_size && md.backend_version == md2.backend_version, "fields differ");
    }
    free(tw);
  }
  free(frag);
  if (!bad) printf("not reproduced: the real code agrees with the specification on the concretised counterexample\n");
  return bad;
}

/* rs_galois_* replaced by their contract "== GF(2^16)/0x1100b spec" (executable form):
 * used where the proof needs actual field arithmetic (generator matrix, matrix inversion).
 * The requires are asserted at every call site (they are the table-index bounds). */
#include "gf16.h"
int rs_galois_mult(int x, int y)
{
  __CPROVER_assert(0 <= x && x < 65536 && 0 <= y && y < 65536,
                   "rs_galois_mult.requires: operands are field elements (table index in range)");
  return (int)gf16_mul((unsigned)x, (unsigned)y);
}
int rs_galois_inverse(int x)
{
  __CPROVER_assert(0 < x && x < 65536, "rs_galois_inverse.requires: non-zero field element");
  return (int)gf16_inv((unsigned)x);
}
int rs_galois_div(int x, int y)
{
  __CPROVER_assert(0 <= x && x < 65536 && 0 < y && y < 65536, "rs_galois_div.requires: field elements, divisor non-zero");
  return (int)gf16_mul((unsigned)x, gf16_inv((unsigned)y));
}
void rs_galois_init_tables(void) {}
void rs_galois_deinit_tables(void) {}

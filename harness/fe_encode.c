/* L4: liberasurecode_encode + liberasurecode_encode_cleanup (src/erasurecode.c) with the real
 * prepare_fragments_for_encode, finalize_fragments_after_encode, add_fragment_metadata and helpers,
 * against the backend-ops interface contract.  Slice (K,M,W,LEN); contents, checksum type, env switch,
 * descriptor, liveness, nullness of each pointer argument and backend failure symbolic.
 * C01/C07: fragments == independent serializer;  C08: fragment_len;  C13: refusals;  C15: input untouched,
 * read in bounds;  C16/C17: nothing leaked on any exit, backend failure => error with nothing kept. */
#include "fe_common.h"
void harness(void)
{
  fe_setup();
  int in_desc = nondet_int();
  int in_null_orig = nondet_bool(), in_null_ed = nondet_bool(), in_null_ep = nondet_bool(), in_null_flen = nondet_bool();
  char *orig = in_null_orig ? NULL : (char *)in_data;
  char **ed = NULL, **ep = NULL; uint64_t flen = 0;
  char ***ped = in_null_ed ? NULL : &ed;
  char ***pep = in_null_ep ? NULL : &ep;
  uint64_t *pfl = in_null_flen ? NULL : &flen;
  unsigned char copy[LEN > 0 ? LEN : 1]; memcpy(copy, in_data, sizeof copy);
  int known = g_live && in_desc == g_inst.idesc;
  int rc = liberasurecode_encode(in_desc, orig, LEN, ped, pep, pfl);
  __CPROVER_assert(rc <= 0, "liberasurecode_encode.ensures: 0 or a negative error code");
  if (!orig || !ped || !pep || !pfl || !known)
    __CPROVER_assert(rc < 0, "C13: NULL argument or unknown descriptor refused with an error");
  if (orig && ped && pep && pfl && known && g_fail_backend)
    __CPROVER_assert(rc < 0, "C17: a failing backend encode surfaces as an error");
  if (orig && ped && pep && pfl && known && !g_fail_backend)
    __CPROVER_assert(rc == 0, "C01: a valid encode request succeeds");
  for (int i = 0; i < (LEN > 0 ? LEN : 1); i++) __CPROVER_assert(in_data[i] == copy[i], "C15: encode does not write to the caller's data");
  if (rc == 0) {
    __CPROVER_assert(flen == FLEN, "C08/C07: fragment_len == 80 + aligned(len)/k, the same for all fragments");
    unsigned char want[FLEN];
    int i = nondet_int(); __CPROVER_assume(0 <= i && i < N);
    spec_fragment(i, want);
    char *f = i < K ? ed[i] : ep[i - K];
    __CPROVER_assert(__CPROVER_r_ok(f, FLEN), "C07: fragment buffer holds fragment_len bytes");
    for (int b = 0; b < FLEN; b++)
      __CPROVER_assert((unsigned char)f[b] == want[b], "C07/C01/C10: every byte of every fragment == independent serializer (header fields, checksums, systematic zero-padded payload, parity)");
    int cr = liberasurecode_encode_cleanup(in_desc, ed, ep);
    __CPROVER_assert(cr == 0, "C16: encode_cleanup succeeds");
    CANARY("encode succeeds");
  } else {
    if (orig && ped && pep && pfl && known) CANARY("backend failure path");
  }
  CANARY("harness end");
}

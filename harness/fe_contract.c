/* Enforcing queries for the internal front-end contracts of fe_contracts.h: the REAL body
 * (src/erasurecode_preprocessing.c) and the contract text run on the same symbolic pre-state and must
 * agree on return code, outputs, ownership.  Slice (K,M,W,LEN); list of up to NFMAX entries, each its own
 * buffer of exactly fragment_len bytes at an aligned or misaligned address (MIS), header fields symbolic
 * (magic native or not, any index, consistent or inconsistent original size).
 *   MODE 1 fragments_to_string   MODE 2 get_fragment_partition   MODE 3 prepare_fragments_for_decode
 *   MODE 4 lemma: every fragment the serializer (= encode's postcondition) writes is accepted by the real
 *          is_invalid_fragment_header, validates with the real is_invalid_fragment, and the metadata query
 *          reports no checksum mismatch (C09, C10, C12: "just encoded => valid") */
#define FE_ENFORCE 1
#include "fe_common.h"
#ifndef NFMAX
#define NFMAX (N + 1)
#endif
#ifndef MIS
#define MIS 2
#endif
#define FTS_NMAX NFMAX
#include "fe_contracts.h"
#define ROWSZ(p) (MISOFF(p) + FLEN)      /* EXACT-size objects (C15): a supplied fragment ends where its object ends, so any read past fragment_len is out of bounds; the object base is 16-byte aligned, offset 1 makes the fragment misaligned */
#define MISOFF(p) (MIS == 0 ? 0 : MIS == 1 ? 1 : ((p) & 1))
int fragments_to_string(int k, int m, char **fragments, int num_fragments, char **orig_payload, uint64_t *payload_len);
int get_fragment_partition(int k, int m, char **fragments, int num_fragments, char **data, char **parity, int *missing);
int prepare_fragments_for_decode(int k, int m, char **data, char **parity, int *missing_idxs, int *orig_size, int *fragment_payload_size, int fragment_size, uint64_t *realloc_bm);
int is_invalid_fragment_header(fragment_header_t *header);
static unsigned char *slot[NFMAX]; static char *list[NFMAX];
static void make_list(void)
{
  for (int p = 0; p < NFMAX; p++) {
    slot[p] = malloc(ROWSZ(p));
    unsigned char *h = slot[p] + MISOFF(p);
    for (int b = 0; b < FLEN; b++) h[b] = nondet_uchar();
    if (nondet_bool()) W32(SPEC_OFF_MAGIC, SPEC_MAGIC);             /* native magic, or anything */
    int origk = nondet_int();                                      /* the slice's original size, or another one */
    if (origk) W32(SPEC_OFF_ORIG, LEN);
    W32(SPEC_OFF_SIZE, BS);                                         /* fragments of one stripe share the payload size */
    list[p] = (char *)h;
  }
}
void harness(void)
{
  int in_nf = NUMFRAG;
#if MODE == 1
  make_list();
  char *o1 = (char *)1, *o2 = (char *)1; uint64_t l1 = 77, l2 = 77;
  int r1 = fragments_to_string(K, M, list, in_nf, &o1, &l1);
  int r2 = c_fragments_to_string(K, M, list, in_nf, &o2, &l2);
  __CPROVER_assert(r1 == r2, "fragments_to_string: return code == contract (0 iff all k data indexes present among consistent well-formed headers)");
  if (r2 == 0) {
    __CPROVER_assert(l1 == l2 && l1 == LEN, "fragments_to_string: length == original size");
    __CPROVER_assert(LEN == 0 || __CPROVER_r_ok(o1, LEN), "fragments_to_string: fresh buffer of orig bytes");
    if (LEN > 0) { int b = nondet_int(); __CPROVER_assume(0 <= b && b < LEN); __CPROVER_assert(o1[b] == o2[b], "fragments_to_string: output == concatenated payloads of the first fragment carrying each data index"); }
    free(o1); free(o2);
#if NUMFRAG >= K
    CANARY("reassembly succeeds");
#endif
  } else {
    __CPROVER_assert(o1 == NULL && o2 == NULL, "fragments_to_string: on failure *out == NULL and nothing is kept");
    CANARY("reassembly refused");
  }
  for (int p = 0; p < NFMAX; p++) free(slot[p]);
#elif MODE == 2
  make_list();
  char *d1[K], *p1[M > 0 ? M : 1], *d2[K], *p2[M > 0 ? M : 1]; int m1[N + 1], m2[N + 1];
  for (int i = 0; i <= N; i++) m1[i] = m2[i] = -1;             /* as alloc_and_set_buffer(.., -1) */
  int r1 = get_fragment_partition(K, M, list, in_nf, d1, p1, m1);
  int r2 = c_get_fragment_partition(K, M, list, in_nf, d2, p2, m2);
  __CPROVER_assert(r1 == r2, "get_fragment_partition: return code == contract (-EBADHEADER on the first bad index, -EINSUFFFRAGS iff more than m missing)");
  if (r2 != -EBADHEADER) {
    for (int i = 0; i < K; i++) __CPROVER_assert(d1[i] == d2[i], "get_fragment_partition: data slot == last supplied fragment with that index, else NULL");
    for (int j = 0; j < M; j++) __CPROVER_assert(p1[j] == p2[j], "get_fragment_partition: parity slot == last supplied fragment with that index, else NULL");
    for (int i = 0; i <= N; i++) __CPROVER_assert(m1[i] == m2[i], "get_fragment_partition: missing list == strictly increasing complement, -1 terminated");
#if NUMFRAG >= K
    if (r2 == 0) CANARY("partition succeeds");
#endif
  }
#elif MODE == 3
  /* pre-state: the post-state of a successful partition over stripe fragments */
  make_list();
  char *d1[K], *p1[M > 0 ? M : 1], *d2[K], *p2[M > 0 ? M : 1]; int mi[N + 1];
  for (int i = 0; i <= N; i++) mi[i] = -1;
  int rp = c_get_fragment_partition(K, M, list, in_nf, d1, p1, mi);
  __CPROVER_assume(rp == 0);
  for (int i = 0; i < K; i++) d2[i] = d1[i];
  for (int j = 0; j < M; j++) p2[j] = p1[j];
  unsigned char *before[NFMAX]; for (int p = 0; p < NFMAX; p++) { before[p] = malloc(ROWSZ(p)); memcpy(before[p], slot[p], ROWSZ(p)); }
  int o1 = 7, o2 = 7, b1 = 7, b2 = 7; uint64_t bm1 = 0, bm2 = 0;
  int r1 = prepare_fragments_for_decode(K, M, d1, p1, mi, &o1, &b1, FLEN, &bm1);
  int r2 = c_prepare_fragments_for_decode(K, M, d2, p2, mi, &o2, &b2, FLEN, &bm2);
  __CPROVER_assert(r1 == r2, "prepare_fragments_for_decode: return code == contract");
  __CPROVER_assert(bm1 == bm2, "prepare_fragments_for_decode: realloc_bm bit set exactly for replaced (missing or misaligned) slots");
  if (r2 == 0) __CPROVER_assert(o1 == o2 && b1 == b2, "prepare_fragments_for_decode: original and payload size read from the first available fragment");
  for (int i = 0; i < N; i++) {
    char *a = i < K ? d1[i] : p1[i - K], *c = i < K ? d2[i] : p2[i - K];
    if ((bm2 >> i) & 1) {
      if (c) {   /* contract allocated: the real one must be a fresh, aligned, equal buffer */
        __CPROVER_assert(a != NULL && __CPROVER_rw_ok(a, FLEN) && ((((unsigned long)a) & 15) == 0), "prepare_fragments_for_decode: replaced slots are fresh 16-aligned buffers of fragment_size bytes");
        int b = nondet_int(); __CPROVER_assume(0 <= b && b < FLEN);
        if (a) __CPROVER_assert(a[b] == c[b], "prepare_fragments_for_decode: fresh buffers are zeroed with the magic set (missing) or byte-equal copies (misaligned)");
      }
    } else __CPROVER_assert(a == c, "prepare_fragments_for_decode: aligned supplied fragments stay in place");
  }
  { int p = nondet_int(), b = nondet_int(); __CPROVER_assume(0 <= p && p < NFMAX && 0 <= b && b < ROWSZ(p));
    __CPROVER_assert(slot[p][b] == before[p][b], "prepare_fragments_for_decode/C15: the caller's fragments are neither written nor freed"); }
  if (r2 == 0) CANARY("prepare succeeds");
#else
  /* MODE 4 lemma */
  fe_setup();
  __CPROVER_assume(g_live);
  int i = nondet_int(); __CPROVER_assume(0 <= i && i < N);
  unsigned char *f = malloc(FLEN);
  spec_fragment(i, f);
  __CPROVER_assert(is_invalid_fragment_header((fragment_header_t *)f) == 0, "C09: a header written by encode is accepted");
  fragment_metadata_t md;
  __CPROVER_assert(liberasurecode_get_fragment_metadata((char *)f, &md) == 0, "C09: the metadata query accepts a fragment written by encode");
  __CPROVER_assert(md.chksum_mismatch == 0, "C10: a fragment written by encode (either CRC variant) reports no checksum mismatch");
  __CPROVER_assert(md.idx == (uint32_t)i && md.size == BS && md.orig_data_size == LEN && md.chksum_type == in_ct && md.backend_id == BEID && md.backend_version == BEVER, "C07: metadata of an encoded fragment");
  __CPROVER_assert(is_invalid_fragment(g_inst.idesc, (char *)f) == 0, "C12: every fragment an instance has just encoded validates as good");
  free(f);
#endif
  CANARY("harness end");
}

/* callee contract stubs (assert requires / return ensures) for the GF kernel */
#include "gf_uf.h"
int rs_galois_mult(int x, int y)
{
  __CPROVER_assert(0 <= x && x < 65536 && 0 <= y && y < 65536,
                   "rs_galois_mult.requires: operands are field elements (table index in range)");
  return GFMUL(x, y);
}
int rs_galois_inverse(int x)
{
  __CPROVER_assert(0 < x && x < 65536, "rs_galois_inverse.requires: non-zero field element");
  return GFINV(x);
}

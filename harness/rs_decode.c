/* L2 / C01-C04 (Reed-Solomon backend implements the backend-ops interface contract), one shape (K,M) per run,
 * erasure sets = all masks in [MLO,MHI] (complete split of the 2^(k+m) subsets over the runs of a shape).
 * Real code: liberasurecode_rs_vand_decode / liberasurecode_rs_vand_reconstruct, create_decoding_matrix,
 * gaussj_inversion, get_first_k_available, get_non_zero_diagonal, swap_matrix_rows, row_mult, row_mult_and_add
 * (src/builtin/rs_vand/liberasurecode_rs_vand.c).
 * By contract: the generator (closed form L_j(r)/L_j(k): enforced on make_systematic_matrix by rs.matrix for every shape),
 * rs_galois_mult/inverse (== gf16 spec, asserted operand ranges: gf.native), region_dot_product at the ghost word
 * (contract enforced on the real body for every blocksize by rsv.region_dot_product; here with the product interpreted).
 * Data: the k scaled unit vectors  c*e_u  (c = 0xACE1) at the ghost word, blocksize symbolic.  Decode/reconstruct of a fixed
 * erasure set is a GF(2^16)-linear map of the data (region_dot_product's contract: a fixed linear combination with
 * data-independent coefficients), so being exact on a basis is being exact on every data vector (DESIGN.md 4.6b; a fully
 * symbolic data word was tried first: the SAT solver does not finish the XOR-network miter even for shape (2,2)).
 *   |E| <= m : decode returns 0, every missing data AND parity buffer holds the stripe's word; survivors untouched
 *              reconstruct(dest in E) returns 0 and the destination buffer holds the stripe's word; survivors untouched
 *   |E| >  m : both return a negative code (the front end never lets such a set through) */
#include "common.h"
#include <stdlib.h>
#include <stdint.h>
#include "rsv.h"
#include "rs_gen_tables.h"
#define PASTE3(a, b, c) a##b##_##c
#define TABLE(k, m) PASTE3(spec_rsv_table_, k, m)
int liberasurecode_rs_vand_decode(int *generator_matrix, char **data, char **parity, int k, int m, int *missing, int blocksize, int rebuild_parity);
int liberasurecode_rs_vand_reconstruct(int *generator_matrix, char **data, char **parity, int k, int m, int *missing, int destination_idx, int blocksize);
#define N (K + M)
#ifdef GENERIC
#define NUNITS 1
#else
#define NUNITS K
#endif
#ifndef MLO
#define MLO 0
#define MHI ((1u << N) - 1)
#endif
int g_bs;                                  /* ghost: the stripe's blocksize (symbolic, even) */
static int G[N * K];
unsigned cur_mask; int cur_dest, cur_unit;
static uint16_t *cellp[N];                 /* ghost-cell model: buffer i is one 2-byte object = its 16-bit word at the ghost index */
#define cell(i) (*cellp[i])
static int popc(unsigned x) { int c = 0; for (int i = 0; i < 32; i++) c += (x >> i) & 1u; return c; }
/* contract of region_dot_product at the ghost word, product interpreted by the field specification */
void region_dot_product(char **from_bufs, char *to_buf, int *matrix_row, int num_entries, int blocksize)
{
  __CPROVER_assert(blocksize == g_bs, "region_dot_product.requires: length == blocksize of the stripe");
  __CPROVER_assert(0 <= num_entries && num_entries <= 32, "region_dot_product.requires: 0 <= num_entries <= 32");
  __CPROVER_assert(__CPROVER_rw_ok(to_buf, 2), "region_dot_product.requires: to_buf is a whole stripe buffer");
  for (int i = 0; i < N; i++) if ((char *)cellp[i] == to_buf)
    __CPROVER_assert((cur_mask >> i) & 1u, "C15: the code writes only into buffers of missing fragments (never into a supplied fragment, not even transiently)");
  uint16_t acc = *(uint16_t *)to_buf;
  for (int i = 0; i < 32; i++) if (i < num_entries) {
    __CPROVER_assert(__CPROVER_r_ok(from_bufs[i], 2), "region_dot_product.requires: from_bufs[i] is a whole stripe buffer");
    __CPROVER_assert(from_bufs[i] != to_buf, "region_dot_product.requires: to_buf distinct from every source");
    __CPROVER_assert(0 <= matrix_row[i] && matrix_row[i] < 65536, "region_dot_product.requires: coefficients are field elements");
    acc ^= (uint16_t)gf16_mul(*(uint16_t *)from_bufs[i], (unsigned)matrix_row[i]);
  }
  *(uint16_t *)to_buf = acc;
}
void harness(void)
{
#if MODE == 3
  /* rs.gtable: the frozen table of this shape == the closed form of specs/rsv.h, entry by entry */
  for (int r = 0; r < N; r++) for (int j = 0; j < K; j++)
    __CPROVER_assert(TABLE(K, M)[r * K + j] == rsv_coeff(K, r, j), "generator table == closed form L_j(r)/L_j(k)");
#else
#ifdef GTABLE
  for (int r = 0; r < N; r++) for (int j = 0; j < K; j++) G[r * K + j] = TABLE(K, M)[r * K + j];
#else
  for (int r = 0; r < N; r++) for (int j = 0; j < K; j++) G[r * K + j] = (int)rsv_coeff(K, r, j);
#endif
  g_bs = nondet_int(); __CPROVER_assume(g_bs >= 2 && g_bs % 2 == 0);
  uint16_t s[N];                           /* the stripe: data words = a scaled unit vector, parity words by the closed-form generator */
  char *data[K], *parity[M];
  for (int i = 0; i < N; i++) cellp[i] = malloc(2);
  for (int i = 0; i < K; i++) data[i] = (char *)cellp[i];
  for (int j = 0; j < M; j++) parity[j] = (char *)cellp[K + j];
  int ncases = 0;
  for (unsigned mask = MLO; mask <= MHI; mask++)
  for (int u = 0; u < NUNITS; u++) {
    int nmiss = popc(mask);
#ifdef GENERIC
    for (int j = 0; j < K; j++) s[j] = (uint16_t)(0xACE1u + 0x1F35u * (unsigned)j);      /* one generic data vector: pairwise distinct non-zero words */
#else
    for (int j = 0; j < K; j++) s[j] = (j == u) ? 0xACE1 : 0;
#endif
    for (int r = K; r < N; r++) { s[r] = 0; for (int j = 0; j < K; j++) s[r] ^= (uint16_t)gf16_mul(s[j], (unsigned)G[r * K + j]); }
    cur_unit = u;
#ifdef ONLY_WITHIN
    if (nmiss > M) continue;
#endif
    cur_mask = mask; cur_dest = -1;
    int missing[N + 1], q = 0;
    for (int i = 0; i < N; i++) if ((mask >> i) & 1u) missing[q++] = i;     /* strictly increasing, as the front end builds it */
    for (int i = q; i <= N; i++) missing[i] = -1;
#if MODE == 1
    for (int i = 0; i < N; i++) cell(i) = ((mask >> i) & 1u) ? 0 : s[i];      /* missing buffers arrive zeroed */
    int rc = liberasurecode_rs_vand_decode(G, data, parity, K, M, missing, g_bs, 1);
    if (nmiss <= M) {
      __CPROVER_assert(rc == 0, "C01/C04: any k of the k+m fragments determine the data: decode succeeds for every erasure set of at most m fragments");
      for (int i = 0; i < N; i++) __CPROVER_assert(cell(i) == s[i], "C01/C02/C04: decode restores every data and parity word exactly (survivors untouched)");
    } else {
      __CPROVER_assert(rc < 0, "C02: more than m erasures are refused by the code");
      for (int i = 0; i < N; i++) __CPROVER_assert(cell(i) == (((mask >> i) & 1u) ? 0 : s[i]), "C15: a refused decode writes nothing");
    }
    ncases++;
#else
    for (int qq = 0; qq < N; qq++) if (qq < q) {
#ifdef GENERIC
      if (qq != 0 && qq != q - 1) continue;       /* sampled shapes: the lowest and the highest missing index as destinations */
#endif
      int dest = missing[qq];
      cur_dest = dest;
      for (int i = 0; i < N; i++) cell(i) = ((mask >> i) & 1u) ? 0 : s[i];
      int rc = liberasurecode_rs_vand_reconstruct(G, data, parity, K, M, missing, dest, g_bs);
      if (nmiss <= M) {
        __CPROVER_assert(rc == 0, "C03: reconstruct succeeds for every erasure set of at most m fragments and every missing destination");
        __CPROVER_assert(cell(dest) == s[dest], "C03/C02: the reconstructed word equals the word encode produced for that index");
        for (int i = 0; i < N; i++) if (!((mask >> i) & 1u)) __CPROVER_assert(cell(i) == s[i], "C15: available fragments are not modified by reconstruct");
      } else
        __CPROVER_assert(rc < 0, "C02: more than m erasures are refused by the code");
      ncases++;
    }
#endif
  }
  __CPROVER_assert(ncases > 0, "vacuity: at least one erasure set was checked");
#endif
  CANARY("harness end");
}

/* L3: the liberasurecode_rs_vand ADAPTER (src/backends/rs_vand/liberasurecode_rs_vand.c) against the contracts of the
 * built-in code library it binds with dlsym (each enforced on its real body elsewhere: make_systematic_matrix by rs.matrix,
 * encode by rs.encode, decode/reconstruct by rs.decode/rs.reconstruct, table refcount by gf.refcount).
 * Shape (k,m) SYMBOLIC in the box [-1,33]^2 (front end admits 1<=k, 0<=m, k+m<=32; the box also shows what the adapter does
 * outside), loader may fail for any symbol.
 *  MODE 1  init / exit / element_size / is_compatible_with / pass-through of encode, decode, reconstruct
 *  MODE 2  fragments-needed planner: symbolic request and exclude lists (any order, duplicates allowed, up to LL entries) */
#include "common.h"
#include <stdlib.h>
#include <string.h>
#include "erasurecode.h"
#include "erasurecode_backend.h"
#include "erasurecode_version.h"
extern struct ec_backend_op_stubs liberasurecode_rs_vand_op_stubs;
extern struct ec_backend_common backend_liberasurecode_rs_vand;
/* ---- the built-in code library as seen through dlsym: contracts in executable form ---- */
static int g_k, g_m, n_init, n_deinit, n_freed; static int *g_matrix;
static int g_rc;                 /* what the code-level function returns (any int) */
static char **e_data, **e_parity; static int *e_missing; static int e_bs, e_dest, n_calls;
void init_liberasurecode_rs_vand(int k, int m) { __CPROVER_assert(k == g_k && m == g_m, "init_liberasurecode_rs_vand.requires: the instance's k, m"); n_init++; }
void deinit_liberasurecode_rs_vand(void) { n_deinit++; }
int *make_systematic_matrix(int k, int m)
{
  __CPROVER_assert(k == g_k && m == g_m, "make_systematic_matrix.requires: the instance's k, m");
  __CPROVER_assert(k >= 1 && m >= 1 && k + m <= 32, "C13: make_systematic_matrix.requires k>=1, m>=1, k+m<=32 (its writes are unguarded outside this range)");
  __CPROVER_assert(n_init == 1, "make_systematic_matrix.requires: GF tables initialised first");
  if (!(k >= 1 && m >= 1 && k + m <= 32)) return NULL;
  g_matrix = malloc(sizeof(int) * (size_t)(k + m) * (size_t)k);
  return g_matrix;
}
void free_systematic_matrix(int *mx) { __CPROVER_assert(mx == g_matrix, "free_systematic_matrix.requires: the matrix make_systematic_matrix returned"); free(mx); n_freed++; }
static void chk(int *mx, char **d, char **p, int k, int m, int bs, const char *w)
{
  __CPROVER_assert(mx == g_matrix && k == g_k && m == g_m, "pass-through: generator matrix and shape of the instance are forwarded");
  __CPROVER_assert(d == e_data && p == e_parity && bs == e_bs, "pass-through: data, parity and blocksize are forwarded unchanged");
  n_calls++;
}
int liberasurecode_rs_vand_encode(int *mx, char **d, char **p, int k, int m, int bs) { chk(mx, d, p, k, m, bs, "encode"); return g_rc; }
int liberasurecode_rs_vand_decode(int *mx, char **d, char **p, int k, int m, int *missing, int bs, int rebuild)
{ chk(mx, d, p, k, m, bs, "decode"); __CPROVER_assert(missing == e_missing, "pass-through: missing list forwarded unchanged"); __CPROVER_assert(rebuild == 1, "decode.requires: parity is rebuilt too (the front end re-checksums every missing fragment)"); return g_rc; }
int liberasurecode_rs_vand_reconstruct(int *mx, char **d, char **p, int k, int m, int *missing, int dest, int bs)
{ chk(mx, d, p, k, m, bs, "reconstruct"); __CPROVER_assert(missing == e_missing && dest == e_dest, "pass-through: missing list and destination forwarded unchanged"); return g_rc; }
/* loader model: dlsym returns the same-named function, or NULL (any subset of symbols may be absent) */
int in_absent;
void *dlsym(void *h, const char *name)
{
  static int seen;
  int bit = seen++;
  if ((in_absent >> bit) & 1) return NULL;
  if (!strcmp(name, "init_liberasurecode_rs_vand")) return (void *)init_liberasurecode_rs_vand;
  if (!strcmp(name, "deinit_liberasurecode_rs_vand")) return (void *)deinit_liberasurecode_rs_vand;
  if (!strcmp(name, "make_systematic_matrix")) return (void *)make_systematic_matrix;
  if (!strcmp(name, "free_systematic_matrix")) return (void *)free_systematic_matrix;
  if (!strcmp(name, "liberasurecode_rs_vand_encode")) return (void *)liberasurecode_rs_vand_encode;
  if (!strcmp(name, "liberasurecode_rs_vand_decode")) return (void *)liberasurecode_rs_vand_decode;
  if (!strcmp(name, "liberasurecode_rs_vand_reconstruct")) return (void *)liberasurecode_rs_vand_reconstruct;
  __CPROVER_assert(0, "dlsym.requires: a symbol the code library exports");
  return NULL;
}
#ifndef LL
#define LL 8
#endif
void harness(void)
{
  struct ec_backend_args a;
#if MODE == 1
  int in_k = nondet_int(), in_m = nondet_int();
  __CPROVER_assume(-1 <= in_k && in_k <= 33 && -1 <= in_m && in_m <= 33 && in_k + in_m <= 32);   /* the front end refuses k+m > 32 */
  in_absent = nondet_int();
#else
  int in_k = K, in_m = M;
  in_absent = 0;
#endif
  g_k = in_k; g_m = in_m;
  a.uargs.k = in_k; a.uargs.m = in_m; a.uargs.w = nondet_int(); a.uargs.hd = nondet_int();
  void *desc = liberasurecode_rs_vand_op_stubs.init(&a, (void *)&g_k);
#if MODE == 1
  int shape_ok = in_k >= 1 && in_m >= 1;
  if ((in_absent & 0x7f) == 0 && shape_ok) __CPROVER_assert(desc != NULL, "liberasurecode_rs_vand_init.ensures: a supported shape with a complete code library yields a descriptor");
  if (!shape_ok || (in_absent & 0x7f) != 0) {
    __CPROVER_assert(desc == NULL, "C13/C17: an unsupported shape (k<1 or m<1) or an incomplete code library is refused");
    __CPROVER_assert(n_init == n_deinit, "C14/C17: a failed init leaves the shared GF tables' reference count unchanged");
    CANARY("init refuses");
  }
  if (desc) {
    __CPROVER_assert(a.uargs.w == 16, "liberasurecode_rs_vand_init.ensures/C08: word size 16 reported back to the front end");
    __CPROVER_assert(liberasurecode_rs_vand_op_stubs.element_size(desc) == 16, "C08: element_size == the w encode uses");
    __CPROVER_assert(n_init == 1 && n_deinit == 0, "C14: init takes exactly one reference on the shared GF tables");
    uint32_t in_v = nondet_u32();
    __CPROVER_assert(liberasurecode_rs_vand_op_stubs.is_compatible_with(in_v) == (in_v == _VERSION(1, 0, 0)), "C12: liberasurecode_rs_vand accepts exactly backend version 1.0.0");
    __CPROVER_assert(backend_liberasurecode_rs_vand.ec_backend_version == _VERSION(1, 0, 0) && backend_liberasurecode_rs_vand.id == EC_BACKEND_LIBERASURECODE_RS_VAND, "C07: backend id and version written into headers are the pinned ones");
    char *dd[2], *pp[2]; int miss[2];
    e_data = dd; e_parity = pp; e_missing = miss; e_bs = nondet_int(); e_dest = nondet_int(); g_rc = nondet_int();
    int which = nondet_int(); __CPROVER_assume(0 <= which && which <= 2);
    int rc = which == 0 ? liberasurecode_rs_vand_op_stubs.encode(desc, dd, pp, e_bs)
           : which == 1 ? liberasurecode_rs_vand_op_stubs.decode(desc, dd, pp, miss, e_bs)
                        : liberasurecode_rs_vand_op_stubs.reconstruct(desc, dd, pp, miss, e_dest, e_bs);
    __CPROVER_assert(n_calls == 1, "pass-through: exactly one call of the code-level function");
    __CPROVER_assert(rc == 0 || rc == g_rc, "C17: the adapter returns 0 or the code-level function's return value");
    __CPROVER_assert(liberasurecode_rs_vand_op_stubs.exit(desc) == 0, "liberasurecode_rs_vand_exit.ensures: success");
    __CPROVER_assert(n_freed == 1 && n_deinit == 1, "C14/C16: exit frees the generator once and drops exactly one table reference");
    CANARY("init accepts");
  }
#else
  __CPROVER_assert(desc != NULL, "liberasurecode_rs_vand_init.ensures: supported shape accepted");
  int n = in_k + in_m;
  int in_r[LL + 1], in_x[LL + 1], r0[LL + 1], x0[LL + 1];
  int in_nr = nondet_int(), in_nx = nondet_int();
  __CPROVER_assume(0 <= in_nr && in_nr <= LL && 0 <= in_nx && in_nx <= LL);
  unsigned long long un = 0;
  for (int i = 0; i <= LL; i++) {
    in_r[i] = nondet_int(); in_x[i] = nondet_int();
    if (i < in_nr) { __CPROVER_assume(0 <= in_r[i] && in_r[i] < n); un |= 1ULL << in_r[i]; } else in_r[i] = -1;
    if (i < in_nx) { __CPROVER_assume(0 <= in_x[i] && in_x[i] < n); un |= 1ULL << in_x[i]; } else in_x[i] = -1;
    r0[i] = in_r[i]; x0[i] = in_x[i];
  }
  int navail = 0; for (int i = 0; i < 32; i++) if (i < n && !((un >> i) & 1)) navail++;
  int *out = malloc(sizeof(int) * n);         /* k+m ints: exactly k indexes and the terminator always fit (k+1 <= k+m) */
  for (int i = 0; i < n; i++) out[i] = 0x7fffffff;
  int rc = liberasurecode_rs_vand_op_stubs.fragments_needed(desc, in_r, in_x, out);
  __CPROVER_assert(rc <= 0, "C06: fragments_needed returns 0 or a negative error code");
  __CPROVER_assert((rc == 0) == (navail >= in_k), "C06: the Reed-Solomon query succeeds exactly when at least k fragments remain (in particular whenever |R|+|X| <= m), else an error");
  if (rc == 0) {
    int prev = -1;
    for (int j = 0; j < 32; j++) if (j < in_k) {
      __CPROVER_assert(0 <= out[j] && out[j] < n, "C06: every returned index lies in 0..k+m-1");
      __CPROVER_assert(out[j] > prev, "C06: returned indexes are distinct (strictly increasing)");
      __CPROVER_assert(!((un >> (out[j] & 63)) & 1), "C06: the answer contains none of the requested or excluded indexes");
      prev = out[j];
    }
    __CPROVER_assert(out[in_k] == -1, "C06: exactly k indexes, -1 terminated (any k fragments suffice for Reed-Solomon)");
    CANARY("planner succeeds");
  }
#if 2 * LL > M
  else CANARY("planner refuses");      /* reachable only when the two lists can name more than m distinct fragments */
#endif
  for (int i = 0; i <= LL; i++) __CPROVER_assert(in_r[i] == r0[i] && in_x[i] == x0[i], "C15: the request and exclude lists are not modified");
  free(out);
  __CPROVER_assert(liberasurecode_rs_vand_op_stubs.exit(desc) == 0, "liberasurecode_rs_vand_exit.ensures: success");
#endif
  CANARY("harness end");
}

/* Native replay of C12 counterexamples on the real library (gcc + ASan/UBSan).
 * argv: <mode 1|2> <k> <m> <same_id 0|1> <n> then per fragment: <hex80> <meta_rel> <pay_rel>
 * Concretisation: a real liberasurecode_rs_vand instance (k,m) is created; each counterexample header
 * keeps all its bytes except: payload size reduced mod 4096, backend id := the instance's id when the
 * counterexample's equalled the instance's (else a different one), stored CRCs re-sealed so that the
 * same relations hold for the real CRCs.  The backend-version predicate is uninterpreted in the proof;
 * both concretisations are tried (version bytes as they are / the version the backend accepts).
 * The real verdict is compared with the reference verdict; exit 1 + REPRODUCED on disagreement. */
#include <stdio.h>
#include <stdlib.h>
#include <string.h>
#include <stdint.h>
#include "frag.h"
#include "crc.h"
#include "erasurecode.h"
static void wr32(unsigned char *h, int off, int order, uint32_t v)
{ for (int b = 0; b < 4; b++) h[off + (order ? 3 - b : b)] = (unsigned char)(v >> (8 * b)); }
static int bad;
#define RS_ID 6
#define RS_VER SPEC_VERSION(1, 0, 0)
static int ref_fields(const unsigned char *h, int k, int m)
{
  if (spec_le32(h, 0) >= (uint32_t)(k + m)) return 1;
  if (h[54] != RS_ID) return 1;
  if (spec_le32(h, 55) != RS_VER) return 1;
  return 0;
}
static int ref_invalid(const unsigned char *f, int k, int m)
{
  if (spec_hdr_order(f) != 0) return 1;
  if (spec_le32(f, 63) > SPEC_LIBVER) return 1;
  if (!spec_hdr_accept(f, spec_crc32(f, 59), spec_crc32_legacy(f, 59))) return 1;
  if (ref_fields(f, k, m)) return 1;
  uint32_t size = spec_le32(f, 4), st = spec_le32(f, 21);
  if (f[20] == SPEC_CT_CRC32) return st != spec_crc32(f + 80, size) && st != spec_crc32_legacy(f + 80, size);
  return f[53] == 1;
}
static void seal(unsigned char *frag, const char *meta_rel, const char *pay_rel)
{
  int order = spec_hdr_order(frag); int o = order < 0 ? 0 : order;
  uint32_t size = spec_rd32(frag, 4, o);
  uint32_t pstd = spec_crc32(frag + 80, size), pleg = spec_crc32_legacy(frag + 80, size);
  if (!strcmp(pay_rel, "std")) wr32(frag, 21, o, pstd); else if (!strcmp(pay_rel, "leg")) wr32(frag, 21, o, pleg);
  else { uint32_t v = spec_rd32(frag, 21, o); if (v == pstd || v == pleg) wr32(frag, 21, o, pstd ^ 0x5a5a5a5au); }
  uint32_t mstd = spec_crc32(frag, 59), mleg = spec_crc32_legacy(frag, 59);
  if (!strcmp(meta_rel, "std")) wr32(frag, 67, o, mstd); else if (!strcmp(meta_rel, "leg")) wr32(frag, 67, o, mleg);
  else { uint32_t v = spec_rd32(frag, 67, o); if (v == mstd || v == mleg) wr32(frag, 67, o, mstd ^ 0x5a5a5a5au); }
}
int main(int argc, char **argv)
{
  if (argc < 6) return 3;
  int mode = atoi(argv[1]), k = atoi(argv[2]), m = atoi(argv[3]), same_id = atoi(argv[4]), n = atoi(argv[5]);
  if (k < 1 || m < 1 || k + m > 32 || n < 1 || n > 8 || argc < 6 + 3 * n) { printf("counterexample shape (k=%d,m=%d,n=%d) outside what a real rs_vand instance can replay\n", k, m, n); return 0; }
  struct ec_args args; memset(&args, 0, sizeof args); args.k = k; args.m = m; args.hd = m; args.ct = CHKSUM_CRC32;
  int desc = liberasurecode_instance_create(EC_BACKEND_LIBERASURECODE_RS_VAND, &args);
  if (desc <= 0) { printf("cannot create the replay instance (%d)\n", desc); return 0; }
  for (int variant = 0; variant < 2 && !bad; variant++) {
    unsigned char *frag[8]; char *list[8];
    for (int f = 0; f < n; f++) {
      frag[f] = calloc(1, 80 + 4096);
      for (int i = 0; i < 80; i++) { unsigned v; sscanf(argv[6 + 3 * f] + 2 * i, "%2x", &v); frag[f][i] = (unsigned char)v; }
      int o = spec_hdr_order(frag[f]) == 1;
      wr32(frag[f], 4, o, spec_rd32(frag[f], 4, o) % 4096);
      for (int i = 0; i < 4096; i++) frag[f][80 + i] = (unsigned char)(i * 31 + f);
      frag[f][54] = same_id ? RS_ID : (frag[f][54] == RS_ID ? RS_ID + 1 : frag[f][54]);
      if (variant == 1) wr32(frag[f], 55, o, RS_VER);
      seal(frag[f], argv[7 + 3 * f], argv[8 + 3 * f]);
      list[f] = (char *)frag[f];
    }
    if (mode == 1) {
      int r = is_invalid_fragment(desc, list[0]), want = ref_invalid(frag[0], k, m);
      if ((r != 0) != (want != 0)) { printf("REPRODUCED: is_invalid_fragment=%d but reference verdict=%d (k=%d m=%d idx=%u backend_id=%u version=%#x)\n", r, want, k, m, spec_le32(frag[0], 0), frag[0][54], spec_le32(frag[0], 55)); bad = 1; }
    } else {
      int r = liberasurecode_verify_stripe_metadata(desc, list, n), code = 0;
      for (int f = 0; f < n && !code; f++) { if (ref_fields(frag[f], k, m)) code = -EBADHEADER; else if (frag[f][53] == 1) code = -EBADCHKSUM; }
      if (r != code) { printf("REPRODUCED: liberasurecode_verify_stripe_metadata=%d but reference=%d (k=%d m=%d, first idx=%u)\n", r, code, k, m, spec_le32(frag[0], 0)); bad = 1; }
    }
    for (int f = 0; f < n; f++) free(frag[f]);
  }
  liberasurecode_instance_destroy(desc);
  if (!bad) printf("not reproduced: real verdicts agree with the reference on the concretised counterexample\n");
  return bad;
}

/* L4 misc entry points against contracts.
 *  MODE 1 (C08)  liberasurecode_get_aligned_data_size / get_minimum_encode_size / get_fragment_size, real
 *                get_aligned_data_size: k = K (case split 1..32), w = W in {8,16,32}; data_len symbolic in [0, 2^20]
 *  MODE 2 (C06/C13/C17) liberasurecode_fragments_needed: refusals, backend return code propagated unchanged
 *  MODE 3 (C14)  registry step from an ARBITRARY well-formed registry (<= NL live instances, any counter value)
 *  MODE 4 (C13/C14/C16/C17) liberasurecode_instance_create / _destroy with the real registry, init/exit by
 *                interface contract (init may fail), loader (dlopen/dlclose) by assumed contract           */
#include "common.h"
#include <stdlib.h>
#include <string.h>
#include <limits.h>
#include "erasurecode.h"
#include "erasurecode_backend.h"
#include "erasurecode_helpers_ext.h"
#ifndef K
#define K 4
#endif
#ifndef W
#define W 16
#endif
#ifndef NL
#define NL 3
#endif
extern int next_backend_desc;
extern struct backend_list { struct ec_backend *slh_first; } active_instances;
int liberasurecode_backend_alloc_desc(void);
/* backends named by erasurecode.c's table: not used, the harness installs its own entries */
struct ec_backend_common backend_null, backend_flat_xor_hd, backend_jerasure_rs_vand, backend_jerasure_rs_cauchy,
  backend_isa_l_rs_vand, backend_shss, backend_liberasurecode_rs_vand, backend_isa_l_rs_cauchy, backend_libphazr;
extern ec_backend_t ec_backends_supported[];
static struct ec_backend node[NL + 1];
static int g_n;
static void arbitrary_registry(void)
{
  /* acyclic list of g_n <= NL nodes with positive pairwise-distinct descriptors: the invariant Reg */
  g_n = nondet_int(); __CPROVER_assume(0 <= g_n && g_n <= NL);
  active_instances.slh_first = g_n > 0 ? &node[0] : NULL;
  for (int i = 0; i < NL; i++) {
    node[i].link.sle_next = (i + 1 < g_n) ? &node[i + 1] : NULL;
    node[i].idesc = nondet_int(); __CPROVER_assume(node[i].idesc > 0);
    for (int j = 0; j < i; j++) __CPROVER_assume(node[j].idesc != node[i].idesc);
  }
  next_backend_desc = nondet_int();                      /* any counter value, INT_MAX and negatives included */
}
static int is_live(int d) { for (int i = 0; i < NL; i++) if (i < g_n && node[i].idesc == d) return 1; return 0; }

#if MODE == 1 || MODE == 2
static struct ec_backend g_inst; int g_live;
int g_fn_rc, g_fn_called, g_meta;
static int st_elsize(void *d) { return W; }
static size_t st_meta(void *d, int bs) { return 0; }
static int st_fn(void *d, int *r, int *x, int *o) { __CPROVER_assert(d == (void *)&g_inst.desc && r && x && o, "ops.fragments_needed.requires: descriptor and three valid lists"); g_fn_called++; return g_fn_rc; }
static struct ec_backend_op_stubs st_ops = { .element_size = st_elsize, .get_backend_metadata_size = st_meta, .fragments_needed = st_fn };
ec_backend_t liberasurecode_backend_instance_get_by_desc(int desc) { return (g_live && desc == g_inst.idesc) ? &g_inst : NULL; }
#endif

#if MODE == 4
int g_init_fail, g_init_calls, g_exit_calls, g_dlopen_fail, g_dlclose_calls; static char g_bdesc, g_handle;
static struct ec_backend_args *g_init_args;
static void *st_init(struct ec_backend_args *a, void *h)
{ __CPROVER_assert(h == (void *)&g_handle, "ops.init.requires: the handle dlopen returned"); g_init_calls++; g_init_args = a; return g_init_fail ? NULL : (void *)&g_bdesc; }
static int st_exit(void *d) { __CPROVER_assert(d == (void *)&g_bdesc, "ops.exit.requires: the descriptor init returned"); g_exit_calls++; return 0; }
static struct ec_backend_op_stubs st_ops = { .init = st_init, .exit = st_exit };
static struct ec_backend_common st_common = { .id = EC_BACKEND_LIBERASURECODE_RS_VAND, .name = "stub", .soname = "libstub.so", .ops = &st_ops, .ec_backend_version = 1 };
void *dlopen(const char *f, int flags) { return g_dlopen_fail ? NULL : (void *)&g_handle; }
int dlclose(void *h) { __CPROVER_assert(h == (void *)&g_handle, "dlclose.requires: an open handle"); g_dlclose_calls++; return 0; }
char *dlerror(void) { return NULL; }
#endif

void harness(void)
{
#if MODE == 1
  g_inst.args.uargs.k = K; g_inst.args.uargs.w = W; g_inst.common.ops = &st_ops; g_inst.common.id = EC_BACKEND_LIBERASURECODE_RS_VAND;
  g_inst.idesc = nondet_int(); __CPROVER_assume(g_inst.idesc > 0); g_live = nondet_bool();
  int in_desc = nondet_int(); uint64_t in_len = nondet_u64(); __CPROVER_assume(in_len <= (1u << 20));
  int known = g_live && in_desc == g_inst.idesc;
  long a = (long)K * (W / 8);
  long want = ((long)in_len + a - 1) / a * a;               /* least multiple of k*w/8 >= len */
  int r = liberasurecode_get_aligned_data_size(in_desc, in_len);
  int mn = liberasurecode_get_minimum_encode_size(in_desc);
  int fs = liberasurecode_get_fragment_size(in_desc, (int)in_len);
  if (!known) __CPROVER_assert(r < 0 && mn < 0 && fs < 0, "C08/C13: size queries on an unknown descriptor return a negative error");
  else {
    __CPROVER_assert(r == want, "C08: aligned data size == smallest multiple of k*(w/8) that is >= the length");
    __CPROVER_assert(want >= (long)in_len && want - (long)in_len < a && want % a == 0, "C08: (reference is the least such multiple)");
    __CPROVER_assert(mn == a, "C08: minimum encode size == aligned size of 1");
    __CPROVER_assert(fs == want / K, "C08: fragment size query == aligned(len)/k (+ backend metadata) == the payload length encode produces (fe.encode: fragment_len == 80 + aligned(len)/k)");
    __CPROVER_assert(get_aligned_data_size(&g_inst, (int)in_len) == want, "C08: the size encode uses (get_aligned_data_size) agrees with the public query");
    CANARY("known descriptor");
  }
#elif MODE == 2
  g_inst.common.ops = &st_ops; g_inst.desc.backend_desc = (void *)&g_inst.desc;
  g_inst.idesc = nondet_int(); __CPROVER_assume(g_inst.idesc > 0); g_live = nondet_bool();
  g_fn_rc = nondet_int();
  int in_desc = nondet_int(); int R[3], X[3], O[8];
  int *r = nondet_bool() ? NULL : R, *x = nondet_bool() ? NULL : X, *o = nondet_bool() ? NULL : O;
  int known = g_live && in_desc == g_inst.idesc;
  int rc = liberasurecode_fragments_needed(in_desc, r, x, o);
  if (!known || !r || !x || !o) { __CPROVER_assert(rc < 0, "C13: unknown descriptor or NULL list refused"); __CPROVER_assert(g_fn_called == 0, "C13: the backend is not called with invalid arguments"); }
  else { __CPROVER_assert(g_fn_called == 1 && rc == g_fn_rc, "C06/C17: the backend's answer (success or failure) is returned unchanged"); CANARY("backend called"); }
#elif MODE == 3
  arbitrary_registry();
  ec_backend_t inst = &node[NL]; inst->idesc = 0;         /* as calloc'ed by create */
  int d = liberasurecode_backend_instance_register(inst);
  __CPROVER_assert(d > 0, "C14: a new descriptor is positive (also when the counter wraps past INT_MAX)");
  __CPROVER_assert(!is_live(d), "C14: a new descriptor differs from every live one");
  __CPROVER_assert(inst->idesc == d && active_instances.slh_first == inst && inst->link.sle_next == (g_n > 0 ? &node[0] : NULL), "register: inserted at the head, the rest of the registry unchanged");
  __CPROVER_assert(liberasurecode_backend_instance_get_by_desc(d) == inst, "C14: lookup finds the new instance");
  int q = nondet_int();
  ec_backend_t f = liberasurecode_backend_instance_get_by_desc(q);
  __CPROVER_assert((f != NULL) == (q == d || is_live(q)), "C14: lookup succeeds exactly for live descriptors");
  if (f && q != d) __CPROVER_assert(f->idesc == q, "C14: lookup returns the instance carrying that descriptor");
  /* unregister any live instance (the new one or an old one): it becomes dead, the others stay */
  int which = nondet_int(); __CPROVER_assume(-1 <= which && which < g_n);
  ec_backend_t victim = which < 0 ? inst : &node[which]; int vd = victim->idesc;
  int rc = liberasurecode_backend_instance_unregister(victim);
  __CPROVER_assert(rc == 0 && liberasurecode_backend_instance_get_by_desc(vd) == NULL, "C14: a descriptor is dead after unregister");
  int q2 = nondet_int();
  __CPROVER_assert((liberasurecode_backend_instance_get_by_desc(q2) != NULL) == (q2 != vd && (q2 == d || is_live(q2))), "C14: unregistering one instance leaves every other live descriptor live");
  CANARY("registry step");
#else
  arbitrary_registry();
  for (int i = 0; i < EC_BACKENDS_MAX; i++) ec_backends_supported[i] = (ec_backend_t)&st_common;
  g_init_fail = nondet_bool(); g_dlopen_fail = nondet_bool();
  struct ec_args args; int in_id = nondet_int(); int in_null_args = nondet_bool();
  args.k = nondet_int(); args.m = nondet_int(); args.hd = nondet_int(); args.w = nondet_int(); args.ct = CHKSUM_NONE;
  __CPROVER_assume(-1 <= args.k && args.k <= 33 && -1 <= args.m && args.m <= 33);
  __CPROVER_assume(in_id >= 0);
  ec_backend_t head0 = active_instances.slh_first;
  int d = liberasurecode_instance_create((ec_backend_id_t)in_id, in_null_args ? NULL : &args);
  int shape_ok = args.k >= 1 && args.m >= 0 && args.k + args.m <= 32;
  if (in_null_args || in_id >= EC_BACKENDS_MAX || !shape_ok)
    __CPROVER_assert(d < 0, "C13: NULL args, unknown backend id or unsupported shape (k<1, m<0, k+m>32) refused");
  if (d <= 0) {
    __CPROVER_assert(d < 0, "create.ensures: a positive descriptor or a negative error");
    __CPROVER_assert(active_instances.slh_first == head0, "C14/C17: a failed create leaves no instance behind");
    if (!in_null_args && in_id < EC_BACKENDS_MAX && shape_ok && !g_dlopen_fail && g_init_fail) CANARY("init failure path");
  } else {
    __CPROVER_assert(!g_init_fail && !g_dlopen_fail, "C17: a failing init / loader surfaces as an error");
    __CPROVER_assert(!is_live(d), "C14: create returns a descriptor different from all live ones");
    ec_backend_t inst = liberasurecode_backend_instance_get_by_desc(d);
    __CPROVER_assert(inst != NULL && inst->idesc == d, "C14: the new descriptor is live");
    __CPROVER_assert(g_init_calls == 1 && g_init_args == &inst->args && inst->args.uargs.k == args.k && inst->args.uargs.m == args.m && inst->args.uargs.hd == args.hd, "create.ensures: backend init called once on the instance's own copy of the arguments");
    __CPROVER_assert(inst->desc.backend_desc == (void *)&g_bdesc && inst->common.ops == &st_ops, "create.ensures: instance carries the backend descriptor and ops");
    int dead = nondet_int(); __CPROVER_assume(dead != d && !is_live(dead));
    __CPROVER_assert(liberasurecode_instance_destroy(dead) < 0 && g_exit_calls == 0, "C14: destroying a dead descriptor is refused");
    __CPROVER_assert(liberasurecode_instance_destroy(d) == 0, "destroy.ensures: success");
    __CPROVER_assert(g_exit_calls == 1 && g_dlclose_calls == 1, "C16: destroy calls the backend's exit and closes the library exactly once");
    __CPROVER_assert(liberasurecode_backend_instance_get_by_desc(d) == NULL && active_instances.slh_first == head0, "C14: destroyed descriptor is dead, the registry is as before");
    __CPROVER_assert(liberasurecode_instance_destroy(d) < 0 && g_exit_calls == 1, "C14/C16: a second destroy is refused (no double free)");
    CANARY("create/destroy cycle");
  }
#endif
  CANARY("harness end");
}

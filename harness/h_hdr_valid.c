/* C09: is_invalid_fragment_header (src/erasurecode.c) on ALL 2^640 headers.
 * The two CRC callees are replaced by their contracts in ghost-result form: called on exactly
 * (&header->meta, 59) they return the ghost values g_std / g_leg (crc32: zlib, assumed;
 * liberasurecode_crc32_alt: obligations crc.*). */
#include "common.h"
#include "frag.h"
#include "erasurecode.h"
int is_invalid_fragment_header(fragment_header_t *header);
static unsigned char in_hdr[80];
#define buf in_hdr
uint32_t g_std, g_leg;
unsigned long crc32(unsigned long crc, const unsigned char *p, unsigned len)
{ __CPROVER_assert(crc == 0 && p == buf && len == 59, "crc32.requires/C09: called on exactly the 59 metadata bytes, initial value 0"); return g_std; }
int liberasurecode_crc32_alt(int crc, const void *p, size_t len)
{ __CPROVER_assert(crc == 0 && p == (const void *)buf && len == 59, "liberasurecode_crc32_alt.requires/C09: called on exactly the 59 metadata bytes, initial value 0"); return (int)g_leg; }
void harness(void)
{
  unsigned char copy[80];
  g_std = nondet_u32(); g_leg = nondet_u32();
  for (int i = 0; i < 80; i++) copy[i] = buf[i] = nondet_uchar();
  int r = is_invalid_fragment_header((fragment_header_t *)buf);
  __CPROVER_assert((r == 0) == (spec_hdr_accept(copy, g_std, g_leg) == 1),
                   "C09: header accepted iff magic (either order), version != 0 and (version < 1.2.0 or stored CRC in {standard, historical})");
  __CPROVER_assert(r == 0 || r == 1, "is_invalid_fragment_header.ensures: verdict is 0 or 1");
  for (int i = 0; i < 80; i++) __CPROVER_assert(buf[i] == copy[i], "C09/C15: validation does not modify the fragment");
  if (r == 0) CANARY("an accepted header exists");
  if (r == 1) CANARY("a rejected header exists");
}

/* Native replay of front-end counterexamples on the real library (all /repo sources, the three
 * built-in code libraries built from source and dlopen()ed, gcc + ASan/UBSan).
 * argv: encode <backend id> <k> <m> <hd> <len> <ct> <live 0|1> <null_orig> <null_ed> <null_ep> <null_flen> <hex data>
 * The instance is a REAL backend instance (the interface-contract stub of the proof is replaced by the
 * real built-in backend).  A crash / sanitizer report or a disagreement with the independent serializer
 * (real CRCs) makes the program exit non-zero and print REPRODUCED. */
#include <stdio.h>
#include <stdlib.h>
#include <string.h>
#include <stdint.h>
#include "frag.h"
#include "crc.h"
#include "erasurecode.h"
static int bad;
#define CHECK(c, ...) do { if (!(c)) { printf("REPRODUCED: "); printf(__VA_ARGS__); printf("\n"); bad = 1; } } while (0)
static unsigned char *unhex(const char *h, int n) { unsigned char *p = calloc(1, n ? n : 1); for (int i = 0; i < n && h[2 * i]; i++) { unsigned v; sscanf(h + 2 * i, "%2x", &v); p[i] = v; } return p; }
int main(int argc, char **argv)
{
  if (argc < 2) return 3;
  if (!strcmp(argv[1], "encode") && argc >= 14) {
    int id = atoi(argv[2]), k = atoi(argv[3]), m = atoi(argv[4]), hd = atoi(argv[5]), len = atoi(argv[6]), ct = atoi(argv[7]), live = atoi(argv[8]);
    int n_orig = atoi(argv[9]), n_ed = atoi(argv[10]), n_ep = atoi(argv[11]), n_fl = atoi(argv[12]);
    unsigned char *data = unhex(argv[13], len);
    struct ec_args args; memset(&args, 0, sizeof args); args.k = k; args.m = m; args.hd = hd; args.ct = ct;
    int desc = liberasurecode_instance_create(id, &args);
    if (desc <= 0) { printf("cannot create the replay instance backend=%d k=%d m=%d hd=%d (%d)\n", id, k, m, hd, desc); return 0; }
    int use = live ? desc : desc + 1000;
    char **ed = NULL, **ep = NULL; uint64_t flen = 0;
    int rc = liberasurecode_encode(use, n_orig ? NULL : (char *)data, len, n_ed ? NULL : &ed, n_ep ? NULL : &ep, n_fl ? NULL : &flen);
    if (n_orig || n_ed || n_ep || n_fl || !live) CHECK(rc < 0, "invalid request accepted, rc=%d", rc);
    else {
      CHECK(rc == 0, "valid encode failed rc=%d", rc);
      if (rc == 0) {
        int w = liberasurecode_get_minimum_encode_size(desc) / k * 8;
        int a = k * w / 8, bs = ((len + a - 1) / a) * a / k;
        CHECK(flen == 80u + bs, "fragment_len %lu, expected %d", (unsigned long)flen, 80 + bs);
        CHECK(liberasurecode_get_fragment_size(desc, len) + 80 == (int)flen, "C08: get_fragment_size+80=%d, fragment_len=%lu", liberasurecode_get_fragment_size(desc, len) + 80, (unsigned long)flen);
        for (int i = 0; i < k + m && !bad; i++) {
          unsigned char *f = (unsigned char *)(i < k ? ed[i] : ep[i - k]);
          CHECK(spec_le32(f, 0) == (uint32_t)i && spec_le32(f, 4) == (uint32_t)bs && spec_le64(f, 12) == (uint64_t)len && f[20] == ct && f[54] == id
                && spec_le32(f, 59) == SPEC_MAGIC && spec_le32(f, 63) == SPEC_LIBVER, "fragment %d: header fields", i);
          CHECK(spec_le32(f, 67) == spec_crc32(f, 59), "fragment %d: metadata CRC", i);
          if (ct == SPEC_CT_CRC32) CHECK(spec_le32(f, 21) == spec_crc32(f + 80, bs), "fragment %d: payload CRC", i);
          for (int b = 71; b < 80; b++) CHECK(f[b] == 0, "fragment %d: padding byte %d", i, b);
          if (i < k) for (int t = 0; t < bs; t++) { long s = (long)i * bs + t; CHECK(f[80 + t] == (s < len ? data[s] : 0), "data fragment %d byte %d", i, t); }
        }
        liberasurecode_encode_cleanup(desc, ed, ep);
      }
    }
    liberasurecode_instance_destroy(desc);
    free(data);
  } else { printf("unknown replay mode\n"); return 3; }
  if (!bad) printf("not reproduced: the real library agrees with the specification on this input\n");
  return bad;
}

/* Native replay of kernel counterexamples against the real code (gcc + ASan/UBSan).
 * argv: <kernel> <blocksize> <ghost index> <mult> <xor>
 * The verifier's counterexample fixes the size/coefficient/index; buffer contents are filled with
 * a fixed pseudo-random pattern (the kernels are byte/word-wise, the failing statement is per index)
 * and EVERY index is compared against the specification, the ghost index first.
 * exit 1 + "REPRODUCED" when the real function disagrees with the specification (or a sanitizer fires). */
#include <stdio.h>
#include <stdlib.h>
#include <string.h>
#include <stdint.h>
#include "gf16.h"
void region_xor(char *from_buf, char *to_buf, int blocksize);
void region_multiply(char *from_buf, char *to_buf, int mult, int xor, int blocksize);
void region_dot_product(char **from_bufs, char *to_buf, int *matrix_row, int num_entries, int blocksize);
void xor_bufs_and_store(char *buf1, char *buf2, int blocksize);
void fast_memcpy(char *dst, char *src, int size);
void rs_galois_init_tables(void);
static unsigned rnd_state = 12345;
static unsigned char rnd(void) { rnd_state = rnd_state * 1103515245u + 12345u; return (unsigned char)(rnd_state >> 16); }
static char *mk(int n) { char *p; if (posix_memalign((void **)&p, 16, n ? n : 1)) exit(3); for (int i = 0; i < n; i++) p[i] = (char)rnd(); return p; }
int main(int argc, char **argv)
{
  if (argc < 6) return 3;
  const char *k = argv[1]; long bs = atol(argv[2]); long g = atol(argv[3]); int mult = atoi(argv[4]); int x = atoi(argv[5]);
  if (bs < 0) { printf("blocksize %ld negative\n", bs); return 0; }
  /* candidates: the counterexample's own size when it fits, then the same size reduced modulo the
     kernels' strides (4, 16, 64, 256), which preserves every loop-boundary residue */
  long cand[6]; int nc = 0; long bs_in = bs;
  if (bs_in <= (1L << 28)) cand[nc++] = bs_in;
  cand[nc++] = bs_in % 256 + 256; cand[nc++] = bs_in % 64 + 64; cand[nc++] = bs_in % 16 + 16; cand[nc++] = bs_in % 16; 
  int bad = 0;
  for (int round = 0; round < nc && !bad; round++) {
    bs = cand[round];
    char *a = mk(bs), *b = mk(bs), *b0 = malloc(bs ? bs : 1); memcpy(b0, b, bs);
    if (!strcmp(k, "region_xor")) { region_xor(a, b, bs); for (long t = 0; t < bs; t++) if (b[t] != (char)(b0[t] ^ a[t])) { printf("REPRODUCED: region_xor blocksize=%ld byte %ld: got %d want %d\n", bs, t, b[t], (char)(b0[t] ^ a[t])); bad = 1; break; } }
    else if (!strcmp(k, "xor_bufs_and_store")) { xor_bufs_and_store(a, b, bs); for (long t = 0; t < bs; t++) if (b[t] != (char)(b0[t] ^ a[t])) { printf("REPRODUCED: xor_bufs_and_store blocksize=%ld byte %ld\n", bs, t); bad = 1; break; } }
    else if (!strcmp(k, "fast_memcpy")) { fast_memcpy(b, a, bs); if (memcmp(a, b, bs)) { printf("REPRODUCED: fast_memcpy size=%ld\n", bs); bad = 1; } }
    else if (!strcmp(k, "region_multiply")) {
      rs_galois_init_tables();
      region_multiply(a, b, mult, x, bs);
      for (long w = 0; w < bs / 2; w++) {
        uint16_t want = (uint16_t)((x ? ((uint16_t *)b0)[w] : 0) ^ gf16_mul(((uint16_t *)a)[w], mult));
        if (((uint16_t *)b)[w] != want) { printf("REPRODUCED: region_multiply blocksize=%ld mult=%d xor=%d word %ld: got %u want %u\n", bs, mult, x, w, ((uint16_t *)b)[w], want); bad = 1; break; }
      }
    } else { printf("unknown kernel %s\n", k); return 3; }
    free(a); free(b); free(b0);
  }
  if (!bad) printf("not reproduced: real %s agrees with the specification for blocksize=%ld and its reductions on pseudo-random buffers\n", k, bs_in);
  else printf("(counterexample blocksize %ld, replayed as %ld)\n", bs_in, bs);
  (void)g;
  return bad;
}

/* L4: the BODY of liberasurecode_decode (+ decode_cleanup) resp. liberasurecode_reconstruct_fragment
 * (src/erasurecode.c), checked against the contracts of everything it calls:
 *   is_invalid_fragment_header (C09 contract), fragments_to_string, get_fragment_partition,
 *   prepare_fragments_for_decode (texts in fe_contracts.h, each enforced on its real body by fe.contract.*),
 *   add_fragment_metadata (enforced by wr.add_fragment_metadata), is_invalid_fragment (C12 contract),
 *   registry lookup (C14), the backend-ops interface contract (decode / reconstruct), crc32 (uninterpreted).
 * Real code besides the body: alloc_zeroed_buffer, alloc_and_set_buffer, get_data_ptr_array_from_fragments,
 * init_fragment_header, liberasurecode_decode_cleanup.
 * Slice (K,M,W,LEN).  The stripe is ANY stripe satisfying encode's postcondition (symbolic data, symbolic
 * parity bytes).  The supplied list is a symbolic sub-multiset: up to NFMAX entries, any order, duplicates;
 * each entry is a buffer of EXACTLY fragment_len bytes, aligned or misaligned per MIS (0 none, 1 all, 2 odd
 * entries).  Descriptor, num_fragments, fragment_len, force flag, nullness of each pointer argument,
 * destination index, header verdicts, backend failure: symbolic.
 *   RECON: reconstruct_fragment instead of decode.   DAMAGE (decode): a symbolic subset of the supplied
 *   fragments fails validation and has arbitrary payload bytes (C20). */
#include "fe_common.h"
#ifndef NFMAX
#define NFMAX (N + 1)
#endif
#ifndef MIS
#define MIS 2
#endif
#define FTS_NMAX NFMAX
#include "fe_contracts.h"
#define ROWSZ(p) (MISOFF(p) + FLEN)      /* EXACT-size objects (C15): a supplied fragment ends where its object ends, so any read past fragment_len is out of bounds; the object base is 16-byte aligned, offset 1 makes the fragment misaligned */
static unsigned char *slotbuf[NFMAX];              /* one object per supplied entry (constant offsets keep the pointer reasoning small) */
static unsigned char *slotcopy[NFMAX];
#define MISOFF(p) (MIS == 0 ? 0 : MIS == 1 ? 1 : ((p) & 1))
int in_pick[NFMAX], in_dmg[NFMAX], in_hdrbad[NFMAX];
static char *g_list[NFMAX]; static int g_nf;
/* ---- callees by contract ---- */
int fragments_to_string(int k, int m, char **f, int nf, char **out, uint64_t *len) { return c_fragments_to_string(k, m, f, nf, out, len); }
int get_fragment_partition(int k, int m, char **f, int nf, char **d, char **p, int *mi) { return c_get_fragment_partition(k, m, f, nf, d, p, mi); }
int prepare_fragments_for_decode(int k, int m, char **d, char **p, int *mi, int *o, int *b, int fs, uint64_t *bm) { return c_prepare_fragments_for_decode(k, m, d, p, mi, o, b, fs, bm); }
/* C09 contract: a verdict per header; here a ghost verdict per supplied fragment (symbolic).
 * That headers written by encode are accepted is the lemma fe.lemma.encoded_valid. */
int is_invalid_fragment_header(fragment_header_t *h)
{
  for (int p = 0; p < NFMAX; p++) if (p < g_nf && (char *)h == g_list[p]) return in_hdrbad[p];
  __CPROVER_assert(0, "is_invalid_fragment_header.requires: the header of a supplied fragment");
  return 1;
}
/* C12 contract: ghost verdict per supplied fragment */
int is_invalid_fragment(int desc, char *f)
{
  __CPROVER_assert(g_live && desc == g_inst.idesc, "is_invalid_fragment.requires: live descriptor");
  for (int p = 0; p < NFMAX; p++) if (p < g_nf && f == g_list[p]) return in_dmg[p];
  __CPROVER_assert(0, "is_invalid_fragment.requires: a supplied fragment");
  return 1;
}
static void c_write_header(unsigned char *h, int idx, int ct, int add_chksum)
{
  W32(SPEC_OFF_LIBVER, SPEC_LIBVER); W32(SPEC_OFF_IDX, idx); W32(SPEC_OFF_ORIG, LEN); W32(SPEC_OFF_ORIG + 4, 0); W32(SPEC_OFF_SIZE, BS);
  h[SPEC_OFF_BEID] = BEID; W32(SPEC_OFF_BEVER, BEVER); W32(SPEC_OFF_BEMETA, 0);
  if (add_chksum) {
    h[SPEC_OFF_CT] = (unsigned char)ct; h[SPEC_OFF_MISMATCH] = 0;
    if (ct == SPEC_CT_CRC32) W32(SPEC_OFF_CHKSUM, FE_LEGACY ? fe_crc_leg(h + 80, BS) : fe_crc_std(h + 80, BS));
  }
  W32(SPEC_OFF_METACRC, FE_LEGACY ? fe_crc_leg(h, 59) : fe_crc_std(h, 59));
}
/* contract of add_fragment_metadata (enforced by wr.add_fragment_metadata for all arguments) */
void add_fragment_metadata(ec_backend_t be, char *fragment, int idx, uint64_t orig, int bs, ec_checksum_type_t ct, int add_chksum)
{
  __CPROVER_assert(be == &g_inst, "add_fragment_metadata.requires: the instance");
  __CPROVER_assert(bs == BS && orig == LEN, "add_fragment_metadata.requires: payload and original size of the stripe");
  __CPROVER_assert(__CPROVER_w_ok(fragment, 80) && __CPROVER_r_ok(fragment, FLEN), "add_fragment_metadata.requires: a fragment buffer of 80 + blocksize bytes");
  __CPROVER_assert(spec_le32((unsigned char *)fragment, SPEC_OFF_MAGIC) == SPEC_MAGIC, "add_fragment_metadata.requires: magic already set (init_fragment_header)");
  c_write_header((unsigned char *)fragment, idx, ct, add_chksum);
}

void harness(void)
{
  fe_setup();
#ifdef NUMFRAG
  int in_numfrag = NUMFRAG;                            /* num_fragments: one value per run (case split -1..NFMAX) */
#else
  int in_numfrag = nondet_int();                       /* num_fragments as announced by the caller: any int up to the array size */
  __CPROVER_assume(in_numfrag <= NFMAX);
#endif
  int in_nf = in_numfrag > 0 ? in_numfrag : 0;         /* entries the call may look at */
  char *list[NFMAX];
  int valid[N]; for (int i = 0; i < N; i++) { g_avail[i] = 0; valid[i] = 0; }
  for (int p = 0; p < NFMAX; p++) {
    in_pick[p] = nondet_int(); in_dmg[p] = 0; in_hdrbad[p] = nondet_bool();
    __CPROVER_assume(0 <= in_pick[p] && in_pick[p] < N);
    slotbuf[p] = malloc(ROWSZ(p)); slotcopy[p] = malloc(ROWSZ(p));
    unsigned char *h = slotbuf[p] + MISOFF(p);
    /* a copy of stripe fragment in_pick[p]: the header fields the front end reads + the payload; the
       remaining header bytes are whatever encode wrote (arbitrary here: nobody below the body's callees reads them) */
    for (int b = 0; b < 80; b++) h[b] = nondet_uchar();
    W32(SPEC_OFF_MAGIC, SPEC_MAGIC); W32(SPEC_OFF_IDX, in_pick[p]); W32(SPEC_OFF_SIZE, BS); W32(SPEC_OFF_ORIG, LEN); W32(SPEC_OFF_ORIG + 4, 0);
    W32(SPEC_OFF_LIBVER, SPEC_LIBVER);
    for (int t = 0; t < BS; t++) h[80 + t] = spec_payload_byte(in_pick[p], t);
#ifdef DAMAGE
    in_dmg[p] = nondet_bool();                /* this fragment fails validation (payload checksum mismatch): */
    if (in_dmg[p]) for (int t = 0; t < BS; t++) h[80 + t] = nondet_uchar();   /* its payload bytes are arbitrary */
    in_hdrbad[p] = 0;
#endif
    list[p] = (char *)h; g_list[p] = (char *)h;
#ifdef DAMAGE
    if (p < in_nf && !in_dmg[p]) { g_avail[in_pick[p]] = 1; valid[in_pick[p]] = 1; }     /* with forced checks only valid fragments count as supplied */
#else
    if (p < in_nf) { g_avail[in_pick[p]] = 1; valid[in_pick[p]] = 1; }
#endif
  }
  g_nf = in_nf;
  for (int p = 0; p < NFMAX; p++) memcpy(slotcopy[p], slotbuf[p], ROWSZ(p));
  int anyhdrbad = 0; for (int p = 0; p < NFMAX; p++) if (p < in_nf && in_hdrbad[p]) anyhdrbad = 1;
  int nmissing = 0, nvalid = 0, havealldata = 1;
  for (int i = 0; i < N; i++) { nmissing += !g_avail[i]; nvalid += valid[i]; if (i < K && !g_avail[i]) havealldata = 0; }
  int in_desc = nondet_int(); uint64_t in_flen = nondet_u64();
  int in_null_list = nondet_bool();
  int known = g_live && in_desc == g_inst.idesc;
  __CPROVER_assume(in_flen == FLEN || in_flen < 80);   /* the stripe's fragment length, or one shorter than a header (C13) */
  int argsok = known && !in_null_list && in_flen == FLEN;
#ifndef RECON
  int in_force = nondet_int(), in_null_out = nondet_bool(), in_null_len = nondet_bool();
#ifdef DAMAGE
  __CPROVER_assume(in_force != 0);           /* C20 is about forced metadata checks */
#endif
  char *out = NULL; uint64_t outlen = 0;
  int rc = liberasurecode_decode(in_desc, in_null_list ? NULL : list, in_numfrag, in_flen, in_force,
                                 in_null_out ? NULL : &out, in_null_len ? NULL : &outlen);
  __CPROVER_assert(rc <= 0, "liberasurecode_decode.ensures: 0 or a negative error code");
  argsok = argsok && !in_null_out && !in_null_len;
  if (!known || in_null_list || in_null_out || in_null_len || in_numfrag < K || in_flen < 80)
    __CPROVER_assert(rc < 0, "C13: unknown descriptor, NULL argument, too few fragments or a fragment length shorter than a header refused");
  if (argsok && in_nf >= K && anyhdrbad) __CPROVER_assert(rc == -EBADHEADER, "C09: a rejected header among the supplied fragments makes decode fail with the bad-header error");
  if (rc == 0 && argsok) {
    __CPROVER_assert(outlen == LEN, "C01/C02: success implies the original length");
    __CPROVER_assert(LEN == 0 || __CPROVER_r_ok(out, LEN), "decode.ensures: output buffer holds the data");
    if (LEN > 0) { int b = nondet_int(); __CPROVER_assume(0 <= b && b < LEN);     /* any byte */
      __CPROVER_assert((unsigned char)out[b] == in_data[b], "C01/C02/C20: success implies exactly the original bytes"); }
  }
#ifdef DAMAGE
  if (argsok && in_force) {
    if (nvalid >= N - TOL && nvalid >= K && !g_fail_backend) __CPROVER_assert(rc == 0, "C20: forced checks: the valid fragments alone are within tolerance => decode returns the original");
    if (nvalid < K) __CPROVER_assert(rc < 0, "C20: forced checks: fewer than k valid fragments => error");
  }
#else
  if (argsok && !anyhdrbad && nmissing <= TOL && in_nf >= K && (!g_fail_backend || havealldata))
    __CPROVER_assert(rc == 0, "C01: erasures within tolerance (any order, duplicates, misaligned buffers, either checksum type, with or without forced checks) => success");
  if (argsok && nmissing > TOL && !havealldata) __CPROVER_assert(rc < 0, "C02: beyond the code's tolerance => error");
  if (argsok && g_fail_backend && !havealldata) __CPROVER_assert(rc < 0, "C17: a failing backend decode surfaces as an error");
#endif
  if (rc == 0 && !in_null_out && known) __CPROVER_assert(liberasurecode_decode_cleanup(in_desc, out) == 0, "C16: decode_cleanup releases the result");
  else if (!in_null_out) __CPROVER_assert(out == NULL, "C17/C16: on failure no buffer is handed to the caller");
#if !defined(NUMFRAG) || NUMFRAG >= K
  if (rc == 0 && argsok && havealldata) CANARY("decode by reassembly succeeds");
#if M > 0
  if (rc == 0 && argsok && !havealldata) CANARY("decode through the backend succeeds");
#endif
#endif
  if (rc < 0 && argsok) CANARY("decode fails on a well-formed request");
#else
  int in_dest = nondet_int(), in_null_outfrag = nondet_bool();
  unsigned char outfrag[FLEN];
  for (int b = 0; b < FLEN; b++) outfrag[b] = nondet_uchar();
  int rc = liberasurecode_reconstruct_fragment(in_desc, in_null_list ? NULL : list, in_numfrag, in_flen, in_dest,
                                               in_null_outfrag ? NULL : (char *)outfrag);
  __CPROVER_assert(rc <= 0, "liberasurecode_reconstruct_fragment.ensures: 0 or a negative error code");
  argsok = argsok && !in_null_outfrag;
  if (!known || in_null_list || in_null_outfrag)
    __CPROVER_assert(rc < 0, "C13: unknown descriptor or NULL argument refused");
  if (argsok && anyhdrbad) __CPROVER_assert(rc < 0, "C09: a rejected header among the supplied fragments makes reconstruct fail");
  if (argsok && anyhdrbad && 0 <= in_dest && in_dest < N) __CPROVER_assert(rc == -EBADHEADER, "C09: a rejected header among the supplied fragments makes reconstruct fail with the bad-header error");
  if (argsok && (in_dest < 0 || in_dest >= N)) __CPROVER_assert(rc < 0, "C03/C13: a destination index outside 0..k+m-1 is rejected with an error");
  if (rc == 0 && argsok && 0 <= in_dest && in_dest < N) {
    if (g_avail[in_dest]) {
      /* "returned unchanged": equal to the (last) supplied fragment carrying that index */
      int last = -1; for (int p = 0; p < NFMAX; p++) if (p < in_nf && in_pick[p] == in_dest) last = p;
      { int b = nondet_int(); __CPROVER_assume(0 <= b && b < FLEN);
        __CPROVER_assert(outfrag[b] == slotcopy[last][MISOFF(last) + b], "C03: a destination among the supplied fragments is returned unchanged"); }
    } else {
      unsigned char want[FLEN];
      for (int b = 0; b < FLEN; b++) want[b] = 0;
      want[59] = 0xcc; want[60] = 0x5e; want[61] = 0x0c; want[62] = 0x0b;
      for (int t = 0; t < BS; t++) want[80 + t] = spec_payload_byte(in_dest, t);
      c_write_header(want, in_dest, in_ct, 1);
      int b = nondet_int(); __CPROVER_assume(0 <= b && b < FLEN);
        __CPROVER_assert(outfrag[b] == want[b], "C03/C02: success implies a fragment byte-identical to the one encode produces for that index (header, metadata checksum, payload checksum, payload)");
    }
  }
  if (argsok && !anyhdrbad && 0 <= in_dest && in_dest < N && nmissing <= TOL && in_nf > 0 && (!g_fail_backend || g_avail[in_dest]))
    __CPROVER_assert(rc == 0, "C03: reconstruct succeeds within tolerance (destination missing or supplied)");
  if (argsok && 0 <= in_dest && in_dest < N && !g_avail[in_dest] && g_fail_backend) __CPROVER_assert(rc < 0, "C17: a failing backend reconstruct surfaces as an error");
#if !defined(NUMFRAG) || NUMFRAG >= K
#if M > 0
  if (rc == 0 && argsok && 0 <= in_dest && in_dest < N && !g_avail[in_dest]) CANARY("reconstruct of a missing fragment succeeds");
#endif
  if (rc == 0 && argsok && 0 <= in_dest && in_dest < N && g_avail[in_dest]) CANARY("reconstruct of a supplied fragment succeeds");
#endif
  if (rc < 0 && argsok) CANARY("reconstruct fails on a well-formed request");
#endif
  { int p = nondet_int(), b = nondet_int(); __CPROVER_assume(0 <= p && p < NFMAX && 0 <= b && b < ROWSZ(p));     /* any byte of any entry */
    __CPROVER_assert(slotbuf[p][b] == slotcopy[p][b], "C15: the caller's fragments are not written"); }
  for (int p = 0; p < NFMAX; p++) { free(slotbuf[p]); free(slotcopy[p]); }
  CANARY("harness end");
}

/* Shared by the front-end (L4) harnesses: one slice (K, M, W, LEN) per run, everything else symbolic.
 *  - registry lookup by contract (C14): one live instance g_inst with descriptor g_inst.idesc
 *  - backend ops = the BACKEND-OPS INTERFACE CONTRACT (DESIGN.md §2.3) in executable form:
 *    assert the requires at the call site, write only the assigns frame, establish the ensures from
 *    ghost copies of the stripe, fail nondeterministically (C17)
 *  - crc32 / liberasurecode_crc32_alt: uninterpreted functions of (length, bytes) - equal bytes give
 *    equal checksums, nothing else is known (zlib: assumed; crc32_alt: obligations crc.*)
 *  - independent serializer spec_fragment_byte() = property C07
 */
#ifndef FE_COMMON_H
#define FE_COMMON_H
#include "common.h"
#include <stdlib.h>
#include <string.h>
#include "frag.h"
#include "erasurecode.h"
#include "erasurecode_backend.h"

#ifndef W
#define W 16
#endif
#define N (K + M)
#define WB (W / 8)
#define ALIGNED ((((LEN) + K * WB - 1) / (K * WB)) * (K * WB))   /* least multiple of k*w/8 >= len (C08) */
#define BS (ALIGNED / K)
#define FLEN (80 + BS)
#ifndef BEID
#define BEID EC_BACKEND_LIBERASURECODE_RS_VAND
#endif
#ifndef TOL
#define TOL M            /* erasures tolerated by the code behind the interface contract (RS: m; flat-XOR: hd-1) */
#endif
#define BEVER SPEC_VERSION(1, 0, 0)

/* ---------------- CRC callees: uninterpreted in (length, content) ---------------- */
uint32_t __CPROVER_uninterpreted_crcstd(unsigned len, uint64_t, uint64_t, uint64_t, uint64_t, uint64_t, uint64_t, uint64_t, uint64_t);
uint32_t __CPROVER_uninterpreted_crcleg(unsigned len, uint64_t, uint64_t, uint64_t, uint64_t, uint64_t, uint64_t, uint64_t, uint64_t);
static void fe_pack(const unsigned char *p, unsigned len, uint64_t w[8])
{
  for (int i = 0; i < 8; i++) w[i] = 0;
  for (unsigned i = 0; i < 64; i++) if (i < len) w[i / 8] |= (uint64_t)p[i] << (8 * (i % 8));
}
static uint32_t fe_crc_std(const unsigned char *p, unsigned len)
{ uint64_t w[8]; fe_pack(p, len, w); return __CPROVER_uninterpreted_crcstd(len, w[0], w[1], w[2], w[3], w[4], w[5], w[6], w[7]); }
static uint32_t fe_crc_leg(const unsigned char *p, unsigned len)
{ uint64_t w[8]; fe_pack(p, len, w); return __CPROVER_uninterpreted_crcleg(len, w[0], w[1], w[2], w[3], w[4], w[5], w[6], w[7]); }
unsigned long crc32(unsigned long crc, const unsigned char *p, unsigned len)
{
  __CPROVER_assert(crc == 0, "crc32.requires: initial value 0");
  __CPROVER_assert(len <= 64, "slice limit: checksummed ranges up to 64 bytes");
  __CPROVER_assert(__CPROVER_r_ok(p, len), "crc32.requires: range readable");
  return fe_crc_std(p, len);
}
int liberasurecode_crc32_alt(int crc, const void *p, size_t len)
{
  __CPROVER_assert(crc == 0, "liberasurecode_crc32_alt.requires: initial value 0");
  __CPROVER_assert(len <= 64, "slice limit: checksummed ranges up to 64 bytes");
  __CPROVER_assert(__CPROVER_r_ok(p, len), "liberasurecode_crc32_alt.requires: range readable");
  return (int)fe_crc_leg((const unsigned char *)p, (unsigned)len);
}
/* ---------------- environment ---------------- */
int g_env_null; char in_env[3];
char *getenv(const char *name) { return g_env_null ? NULL : in_env; }
#define FE_LEGACY (!g_env_null && !(in_env[0] == '\0' || (in_env[0] == '0' && in_env[1] == '\0')))

/* ---------------- registry (C14 contract) ---------------- */
static struct ec_backend g_inst; int g_live;
ec_backend_t liberasurecode_backend_instance_get_by_desc(int desc)
{ return (g_live && desc == g_inst.idesc) ? &g_inst : NULL; }

/* ---------------- ghost stripe ---------------- */
unsigned char in_data[LEN > 0 ? LEN : 1];     /* the caller's input buffer (exactly LEN bytes) */
unsigned char in_parity[M > 0 ? M : 1][BS > 0 ? BS : 1];   /* the parity bytes the backend produces (arbitrary: any code) */
int in_ct;                                     /* checksum type of the instance */

static unsigned char spec_payload_byte(int idx, int t)
{
  if (idx < K) { long src = (long)idx * BS + t; return src < LEN ? in_data[src] : 0; }
  return in_parity[idx - K][t];
}
/* C07: the fragment with index idx, as the independent serializer writes it */
static void spec_fragment(int idx, unsigned char *out /* FLEN bytes */)
{
  for (int b = 0; b < FLEN; b++) out[b] = 0;
  for (int t = 0; t < BS; t++) out[80 + t] = spec_payload_byte(idx, t);
  unsigned char *h = out;
#define W32(off, v) do { uint32_t v_ = (v); h[off] = v_; h[(off) + 1] = v_ >> 8; h[(off) + 2] = v_ >> 16; h[(off) + 3] = v_ >> 24; } while (0)
  W32(SPEC_OFF_IDX, idx); W32(SPEC_OFF_SIZE, BS); W32(SPEC_OFF_BEMETA, 0); W32(SPEC_OFF_ORIG, LEN); W32(SPEC_OFF_ORIG + 4, 0);
  h[SPEC_OFF_CT] = (unsigned char)in_ct;
  if (in_ct == SPEC_CT_CRC32) W32(SPEC_OFF_CHKSUM, FE_LEGACY ? fe_crc_leg(out + 80, BS) : fe_crc_std(out + 80, BS));
  h[SPEC_OFF_MISMATCH] = 0; h[SPEC_OFF_BEID] = BEID; W32(SPEC_OFF_BEVER, BEVER);
  W32(SPEC_OFF_MAGIC, SPEC_MAGIC); W32(SPEC_OFF_LIBVER, SPEC_LIBVER);
  W32(SPEC_OFF_METACRC, FE_LEGACY ? fe_crc_leg(h, 59) : fe_crc_std(h, 59));
}

/* ---------------- backend-ops interface contract (callee side) ---------------- */
int g_fail_backend;                 /* nondeterministic: the backend operation reports failure (C17) */
int g_avail[N > 0 ? N : 1];         /* ghost: which stripe indexes the caller supplied (decode side) */
static size_t st_meta(void *desc, int bs) { return 0; }
static size_t st_off(void *desc, int ms) { return 0; }
static int st_elsize(void *desc) { return W; }
static bool st_compat(uint32_t v) { return v == BEVER; }
static int st_encode(void *desc, char **data, char **parity, int blocksize)
{
  __CPROVER_assert(desc == (void *)&g_inst.desc, "ops.encode.requires: the instance's backend descriptor");
  __CPROVER_assert(blocksize == BS, "ops.encode.requires: blocksize == aligned(len)/k");
  __CPROVER_assert(blocksize % WB == 0, "ops.encode.requires: blocksize is a whole number of code words (w/8 bytes)");
  for (int i = 0; i < K; i++) {
    __CPROVER_assert(__CPROVER_r_ok(data[i], BS), "ops.encode.requires: data[i] readable for blocksize");
    for (int t = 0; t < BS; t++) __CPROVER_assert((unsigned char)data[i][t] == spec_payload_byte(i, t), "ops.encode.requires/C07: data[i] holds bytes [i*bs,(i+1)*bs) of the input, zero padded");
  }
  for (int j = 0; j < M; j++) {
    __CPROVER_assert(__CPROVER_w_ok(parity[j], BS), "ops.encode.requires: parity[j] writable for blocksize");
    for (int t = 0; t < BS; t++) __CPROVER_assert(parity[j][t] == 0, "ops.encode.requires: parity buffers arrive zeroed");
    for (int i = 0; i < K; i++) __CPROVER_assert(!__CPROVER_same_object(parity[j], data[i]), "ops.encode.requires: distinct buffers");
  }
  if (g_fail_backend) { for (int j = 0; j < M; j++) for (int t = 0; t < BS; t++) parity[j][t] = nondet_uchar(); return -1 - (nondet_uint() % 1000); }
  for (int j = 0; j < M; j++) for (int t = 0; t < BS; t++) parity[j][t] = in_parity[j][t];
  return 0;
}
static int st_check_decode_requires(void *desc, char **data, char **parity, int *missing, int blocksize, const char *op)
{
  __CPROVER_assert(desc == (void *)&g_inst.desc, "ops.decode/reconstruct.requires: the instance's backend descriptor");
  __CPROVER_assert(blocksize == BS, "ops.decode/reconstruct.requires: blocksize is the stripe's payload size");
  int pos = 0;
  for (int i = 0; i < N; i++) {
    char *buf = i < K ? data[i] : parity[i - K];
    __CPROVER_assert(__CPROVER_w_ok(buf, BS), "ops.decode/reconstruct.requires: every data/parity buffer valid for blocksize");
    __CPROVER_assert((((unsigned long)buf) & 15) == 0, "ops.decode/reconstruct.requires: buffers 16-byte aligned");
    if (!g_avail[i]) {
      __CPROVER_assert(missing[pos] == i, "ops.decode/reconstruct.requires: missing list is the strictly increasing complement of the supplied indexes");
      pos++;
      for (int t = 0; t < BS; t++) __CPROVER_assert(buf[t] == 0, "ops.decode/reconstruct.requires: buffers of missing indexes arrive zeroed");
    } else
      for (int t = 0; t < BS; t++) __CPROVER_assert((unsigned char)buf[t] == spec_payload_byte(i, t), "ops.decode/reconstruct.requires: survivors' payloads are the stripe's symbols");
  }
  __CPROVER_assert(missing[pos] == -1, "ops.decode/reconstruct.requires: missing list -1 terminated");
  return pos;
}
static int st_decode(void *desc, char **data, char **parity, int *missing, int blocksize)
{
  int nmiss = st_check_decode_requires(desc, data, parity, missing, blocksize, "decode");
  /* failure: any negative code, buffers of missing indexes arbitrary.  success only within the code's tolerance. */
  if (g_fail_backend || nmiss > TOL) {
    for (int i = 0; i < N; i++) if (!g_avail[i]) for (int t = 0; t < BS; t++) (i < K ? data[i] : parity[i - K])[t] = nondet_uchar();
    return -1 - (nondet_uint() % 1000);
  }
  for (int i = 0; i < N; i++) if (!g_avail[i]) for (int t = 0; t < BS; t++) (i < K ? data[i] : parity[i - K])[t] = spec_payload_byte(i, t);
  return 0;
}
static int st_reconstruct(void *desc, char **data, char **parity, int *missing, int dest, int blocksize)
{
  int nmiss = st_check_decode_requires(desc, data, parity, missing, blocksize, "reconstruct");
  __CPROVER_assert(0 <= dest && dest < N && !g_avail[dest], "ops.reconstruct.requires: destination is a missing index in [0,k+m)");
  if (!(0 <= dest && dest < N)) return -1;
  char *buf = dest < K ? data[dest] : parity[dest - K];
  if (g_fail_backend || nmiss > TOL) { for (int t = 0; t < BS; t++) buf[t] = nondet_uchar(); return -1 - (nondet_uint() % 1000); }
  for (int t = 0; t < BS; t++) buf[t] = spec_payload_byte(dest, t);
  return 0;
}
int g_fn_rc; int g_fn_called;
static int st_fragments_needed(void *desc, int *r, int *x, int *out)
{
  __CPROVER_assert(desc == (void *)&g_inst.desc, "ops.fragments_needed.requires: the instance's backend descriptor");
  g_fn_called = 1;
  return g_fn_rc;
}
static struct ec_backend_op_stubs st_ops = {
  .encode = st_encode, .decode = st_decode, .reconstruct = st_reconstruct, .fragments_needed = st_fragments_needed,
  .element_size = st_elsize, .is_compatible_with = st_compat,
  .get_backend_metadata_size = st_meta, .get_encode_offset = st_off };

static void fe_setup(void)
{
  for (int i = 0; i < (LEN > 0 ? LEN : 1); i++) in_data[i] = nondet_uchar();
  for (int j = 0; j < M; j++) for (int t = 0; t < BS; t++) in_parity[j][t] = nondet_uchar();
  in_ct = nondet_int(); __CPROVER_assume(in_ct == SPEC_CT_NONE || in_ct == SPEC_CT_CRC32 || in_ct == SPEC_CT_MD5);
  g_env_null = nondet_bool(); in_env[0] = nondet_uchar(); in_env[1] = nondet_uchar(); in_env[2] = 0;
  g_inst.args.uargs.k = K; g_inst.args.uargs.m = M; g_inst.args.uargs.w = W; g_inst.args.uargs.hd = M; g_inst.args.uargs.ct = in_ct;
  g_inst.common.id = BEID; g_inst.common.ops = &st_ops; g_inst.common.ec_backend_version = BEVER;
  g_inst.desc.backend_desc = (void *)&g_inst.desc;
  g_inst.idesc = nondet_int(); __CPROVER_assume(g_inst.idesc > 0);
  g_live = nondet_bool();
  g_fail_backend = nondet_bool();
}
#endif

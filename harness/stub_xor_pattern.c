/* Callee contract of get_failure_pattern for lists of four or more erasures (enforced on the real body by
 * job xor.failure_pattern): the classifier looks at no more than four entries and answers FAIL_PATTERN_GE_HD.
 * Used only where the harness supplies >= 4 erasures; any other use fails the requires. */
#include "xor_code.h"
failure_pattern_t get_failure_pattern(xor_code_t *code_desc, int *missing_idxs)
{
  __CPROVER_assert(missing_idxs[0] > -1 && missing_idxs[1] > -1 && missing_idxs[2] > -1 && missing_idxs[3] > -1,
                   "get_failure_pattern.requires (this stub): at least four erasures listed");
  return FAIL_PATTERN_GE_HD;
}

/* C12: per-fragment and per-stripe validation (src/erasurecode.c):
 *   MODE 1  is_invalid_fragment(desc, fragment)        (real get_libec_version, get_fragment_metadata,
 *           is_invalid_fragment_header, is_invalid_fragment_metadata, verify_fragment_metadata inside)
 *   MODE 2  liberasurecode_verify_stripe_metadata(desc, fragments, n), n <= NF
 * k, m, backend id, versions, every header byte symbolic; CRC callees in ghost-result form keyed by
 * (pointer, length); registry lookup and the backend's is_compatible_with by contract. */
#include "common.h"
#include <string.h>
#include "frag.h"
#include "erasurecode.h"
#include "erasurecode_backend.h"
#ifndef NF
#define NF 3
#endif
static unsigned char in_frag[NF][80];
uint32_t g_mstd[NF], g_mleg[NF], g_pstd[NF], g_pleg[NF];
static struct ec_backend g_inst; int g_live;
_Bool __CPROVER_uninterpreted_compat(uint32_t version);
static bool st_compat(uint32_t version) { return __CPROVER_uninterpreted_compat(version); }
static struct ec_backend_op_stubs st_ops = { .is_compatible_with = st_compat };
ec_backend_t liberasurecode_backend_instance_get_by_desc(int desc)
{ return (g_live && desc == g_inst.idesc) ? &g_inst : NULL; }   /* registry contract (C14) */
static int which(const void *p, int off)
{ for (int f = 0; f < NF; f++) if (p == (const void *)(in_frag[f] + off)) return f; return -1; }
unsigned long crc32(unsigned long crc, const unsigned char *p, unsigned len)
{
  int f = which(p, 0);
  if (f >= 0) { __CPROVER_assert(crc == 0 && len == 59, "crc32.requires: metadata CRC over exactly 59 bytes"); return g_mstd[f]; }
  f = which(p, 80);
  __CPROVER_assert(f >= 0 && crc == 0, "crc32.requires: payload CRC starts at offset 80 of a supplied fragment");
  if (f < 0) return 0;
  int o = spec_hdr_order(in_frag[f]);
  __CPROVER_assert(len == spec_rd32(in_frag[f], SPEC_OFF_SIZE, o < 0 ? 0 : o), "crc32.requires: payload CRC over exactly size bytes");
  return g_pstd[f];
}
int liberasurecode_crc32_alt(int crc, const void *p, size_t len)
{
  int f = which(p, 0);
  if (f >= 0) { __CPROVER_assert(crc == 0 && len == 59, "crc32_alt.requires: metadata CRC over exactly 59 bytes"); return (int)g_mleg[f]; }
  f = which(p, 80);
  __CPROVER_assert(f >= 0 && crc == 0, "crc32_alt.requires: payload CRC starts at offset 80 of a supplied fragment");
  return f < 0 ? 0 : (int)g_pleg[f];
}
/* reference verdict of C12 for one fragment against instance (k, m, id, compat) */
static int ref_field_tests_fail(const unsigned char *h, int order, int k, int m, int id)
{
  uint32_t idx = spec_rd32(h, SPEC_OFF_IDX, order);
  if (idx >= (uint32_t)(k + m)) return 1;                       /* index not in 0..k+m-1 */
  if (h[SPEC_OFF_BEID] != id) return 1;                         /* foreign backend */
  if (!__CPROVER_uninterpreted_compat(spec_rd32(h, SPEC_OFF_BEVER, order))) return 1;
  return 0;
}
static int ref_invalid(int f, int k, int m, int id)
{
  const unsigned char *h = in_frag[f];
  if (spec_hdr_order(h) != 0) return 1;                         /* not in host byte order */
  if (spec_le32(h, SPEC_OFF_LIBVER) > SPEC_LIBVER) return 1;    /* written by a newer library */
  if (!spec_hdr_accept(h, g_mstd[f], g_mleg[f])) return 1;      /* unacceptable header (C09) */
  if (ref_field_tests_fail(h, 0, k, m, id)) return 1;
  uint32_t stored = spec_le32(h, SPEC_OFF_CHKSUM);
  if (h[SPEC_OFF_CT] == SPEC_CT_CRC32) return stored != g_pstd[f] && stored != g_pleg[f];
  return h[SPEC_OFF_MISMATCH] == 1;                             /* a set mismatch flag */
}
void harness(void)
{
  int in_k = nondet_int(), in_m = nondet_int(), in_id = nondet_int(), in_desc = nondet_int();
  __CPROVER_assume(1 <= in_k && in_k <= 32 && 0 <= in_m && in_m <= 32 && in_k + in_m <= 32);
  __CPROVER_assume(0 <= in_id && in_id < EC_BACKENDS_MAX);
  g_inst.args.uargs.k = in_k; g_inst.args.uargs.m = in_m; g_inst.common.id = in_id; g_inst.common.ops = &st_ops;
  g_inst.idesc = nondet_int(); __CPROVER_assume(g_inst.idesc > 0); g_live = nondet_bool();
  for (int f = 0; f < NF; f++) {
    for (int i = 0; i < 80; i++) in_frag[f][i] = nondet_uchar();
    g_mstd[f] = nondet_u32(); g_mleg[f] = nondet_u32(); g_pstd[f] = nondet_u32(); g_pleg[f] = nondet_u32();
  }
  unsigned char copy[NF][80]; memcpy(copy, in_frag, sizeof copy);
  int known = g_live && in_desc == g_inst.idesc;
#if MODE == 1
  char *frag = nondet_bool() ? NULL : (char *)in_frag[0];
  int r = is_invalid_fragment(in_desc, frag);
  int want = (!known || !frag) ? 1 : ref_invalid(0, in_k, in_m, in_id);
  __CPROVER_assert((r != 0) == (want != 0), "C12: is_invalid_fragment reports invalid iff the reference verdict says foreign or damaged");
  __CPROVER_assert(r == 0 || r == 1, "is_invalid_fragment.ensures: verdict is 0 or 1");
  if (r == 0) CANARY("a valid fragment exists");
  if (r == 1 && known && frag) CANARY("an invalid fragment exists");
#else
  int in_n = nondet_int(); __CPROVER_assume(in_n <= NF);
  char *list[NF]; for (int f = 0; f < NF; f++) list[f] = (char *)in_frag[f];
  char **pl = nondet_bool() ? NULL : list;
  int r = liberasurecode_verify_stripe_metadata(in_desc, pl, in_n);
  if (!pl || in_n <= 0) __CPROVER_assert(r == -EINVALIDPARAMS, "C13: NULL list or non-positive count refused");
  else if (!known) __CPROVER_assert(r < 0, "C13/C14: unknown descriptor refused");
  else {
    int first = -1, code = 0;
    for (int f = 0; f < NF; f++) if (f < in_n && first < 0) {
      if (ref_field_tests_fail(in_frag[f], 0, in_k, in_m, in_id)) { first = f; code = -EBADHEADER; }
      else if (in_frag[f][SPEC_OFF_MISMATCH] == 1) { first = f; code = -EBADCHKSUM; }
    }
    __CPROVER_assert((r < 0) == (first >= 0), "C12: stripe verification fails iff some supplied fragment fails the index, backend-id or backend-version test or carries a set mismatch flag");
    __CPROVER_assert(r == code, "C12: the error code is the one of the first failing fragment (bad header / bad checksum), 0 when none fails");
    if (r == 0) CANARY("a good stripe exists");
    if (r < 0) CANARY("a bad stripe exists");
  }
#endif
  for (int f = 0; f < NF; f++) for (int i = 0; i < 80; i++)
    __CPROVER_assert(in_frag[f][i] == copy[f][i], "C12/C15: validation does not modify the fragments");
  CANARY("validation returns");
}

/* shared by all harnesses */
#ifndef VERIF_COMMON_H
#define VERIF_COMMON_H
#include <stdint.h>
#include <stddef.h>
int nondet_int(void);
unsigned nondet_uint(void);
unsigned char nondet_uchar(void);
uint32_t nondet_u32(void);
uint64_t nondet_u64(void);
_Bool nondet_bool(void);
/* vacuity guard: must be reachable, i.e. must be reported FAILED by the verifier */
#define CANARY(what) __CPROVER_assert(0, "canary: " what)
#endif

/* Slot allocator for harnesses that walk thousands of concrete cases in ONE verifier run (x_plan.c).
 * CBMC creates a new dynamic object for every executed malloc and its symbolic-execution state grows with
 * them (measured: 0.2 s per planner request at 66 requests, 1.5 s per request at 276); here malloc/free hand
 * out a fixed set of STATIC objects, one object per slot, so the state stays constant.
 *   - a request of 4*MAX_DATA (=128) bytes or of POOL_NBYTES (= 4*(k+m)) bytes gets a slot of EXACTLY that size:
 *     any access past the requested size is still an out-of-bounds failure of that object;
 *   - other sizes (the two descriptor structs allocated once at init) get a 512-byte slot;
 *   - free() of anything but the base of a slot in use fails ("invalid or double free"); pool_all_free() is the leak check.
 * Not detected in this model: use after free (the slot stays a valid object).  The same code runs under CBMC's own
 * malloc/free model on a sample of requests in the xor.plan.mem jobs. */
#include <stddef.h>
#ifndef POOL_NBYTES
#error "POOL_NBYTES"
#endif
#define NS 4
static int pa0[32], pa1[32], pa2[32], pa3[32];
static int pb0[POOL_NBYTES / 4], pb1[POOL_NBYTES / 4], pb2[POOL_NBYTES / 4], pb3[POOL_NBYTES / 4];
static long pc0[64], pc1[64], pc2[64], pc3[64];
static void *const slot_a[NS] = {pa0, pa1, pa2, pa3};
static void *const slot_b[NS] = {pb0, pb1, pb2, pb3};
static void *const slot_c[NS] = {pc0, pc1, pc2, pc3};
static int used_a[NS], used_b[NS], used_c[NS];
int pool_live;
void *malloc(size_t size)
{
  void *const *slots = size == 128 ? slot_a : size == POOL_NBYTES ? slot_b : slot_c;
  int *used = size == 128 ? used_a : size == POOL_NBYTES ? used_b : used_c;
  __CPROVER_assert(size == 128 || size == POOL_NBYTES || size <= 512, "pool allocator: request size within the modelled classes");
  for (int i = 0; i < NS; i++)
    if (!used[i]) { used[i] = 1; pool_live++; return slots[i]; }
  __CPROVER_assert(0, "pool allocator: more than 4 live allocations of one size class");
  return NULL;
}
void free(void *p)
{
  if (p == NULL) return;
  for (int i = 0; i < NS; i++) {
    if (p == slot_a[i] && used_a[i]) { used_a[i] = 0; pool_live--; return; }
    if (p == slot_b[i] && used_b[i]) { used_b[i] = 0; pool_live--; return; }
    if (p == slot_c[i] && used_c[i]) { used_c[i] = 0; pool_live--; return; }
  }
  __CPROVER_assert(0, "C16: free of a pointer that is not a live allocation (invalid or double free)");
}

/* Contract of rs_galois_mult / rs_galois_inverse as seen by their callers:
 *   rs_galois_mult(x,y)  == GFMUL(x,y)   for field elements x,y
 *   rs_galois_inverse(x) == GFINV(x)     for a non-zero field element x
 * where GFMUL / GFINV are *uninterpreted* functions in caller proofs (the callers'
 * contracts are stated over the same symbols).  That rs_galois_mult is the
 * GF(2^16)/0x1100b product gf16_mul of specs/gf16.h is the separate L0
 * obligation (jobs gf.*); substituting one into the other needs only that the
 * callee is a function of its arguments, which this contract says. */
#ifndef VERIF_GF_UF_H
#define VERIF_GF_UF_H
unsigned short __CPROVER_uninterpreted_gfmul(unsigned short x, unsigned short y);
unsigned short __CPROVER_uninterpreted_gfinv(unsigned short x);
#define GFMUL(x, y) __CPROVER_uninterpreted_gfmul((unsigned short)(x), (unsigned short)(y))
#define GFINV(x) __CPROVER_uninterpreted_gfinv((unsigned short)(x))
/* coefficient application as region_dot_product does it: a coefficient of 1 is a plain xor */
#define GFAPPLY(word, coef) ((coef) == 1 ? (unsigned short)(word) : GFMUL(word, coef))
#endif

/* L1: xor_bufs_and_store (src/builtin/xor_codes/xor_code.c), portable (unsigned long) and
 * -DINTEL_SSE2 (__m128i through emmintrin.h) flavours; blocksize symbolic incl. non-multiples of 16. */
#include "common.h"
void xor_bufs_and_store(char *buf1, char *buf2, int blocksize);
int g_t;
void c_xor_bufs_and_store(char *buf1, char *buf2, int blocksize)
#ifdef BS0
__CPROVER_requires(blocksize == 0)
#else
__CPROVER_requires(blocksize >= 1 && blocksize <= 2147483647)
__CPROVER_requires(0 <= g_t && g_t < blocksize)
#endif
__CPROVER_requires(__CPROVER_is_fresh(buf1, blocksize))
__CPROVER_requires(__CPROVER_is_fresh(buf2, blocksize))
__CPROVER_assigns(__CPROVER_object_upto(buf2, blocksize))
#ifndef BS0
__CPROVER_ensures(buf2[g_t] == (char)(__CPROVER_old(buf2[g_t]) ^ buf1[g_t]))
__CPROVER_ensures(buf1[g_t] == __CPROVER_old(buf1[g_t]))
#endif
;
void harness(void)
{
  char *a, *b; int in_bs = nondet_int();
  xor_bufs_and_store(a, b, in_bs);
  CANARY("xor_bufs_and_store returns");
}

/* The constructor / destructor of erasurecode.c (syslog set-up and a name table used only by an
 * unrelated query) are dropped from front-end proofs: their bodies are removed from the goto binary
 * and replaced by these empty ones.  Stated as dropped in DESIGN.md §2.1. */
void liberasurecode_init(void) {}
void liberasurecode_exit(void) {}

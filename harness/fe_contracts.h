/* Contracts of the internal front-end functions, ONE TEXT EACH, in executable form
 * ("assert the requires; build the ensured post-state from the pre-state").  Used
 *   (a) as the callee when liberasurecode_decode / _reconstruct_fragment are verified (fe.decode*, fe.reconstruct*)
 *   (b) as the reference in the enforcing queries fe.contract.* where the real body and this text run on
 *       the same symbolic pre-state and must agree.
 * All are stated for fragments of ONE stripe of the slice (K,M,LEN): header fields as the serializer writes them. */
#ifndef FE_CONTRACTS_H
#define FE_CONTRACTS_H
/* REQ: a requires clause - asserted when the contract stands in for the callee, assumed when the
 * contract is enforced on the real body */
#ifdef FE_ENFORCE
#define REQ(c, msg) __CPROVER_assume(c)
#else
#define REQ(c, msg) __CPROVER_assert(c, msg)
#endif
#ifndef FTS_NMAX
#define FTS_NMAX (N + 1)
#endif
static int c_hdr_idx(const char *f)      /* get_fragment_idx: -1 unless the magic is native */
{ return spec_le32((const unsigned char *)f, SPEC_OFF_MAGIC) == SPEC_MAGIC ? (int)spec_le32((const unsigned char *)f, SPEC_OFF_IDX) : -1; }
static int c_hdr_size(const char *f)
{ return spec_le32((const unsigned char *)f, SPEC_OFF_MAGIC) == SPEC_MAGIC ? (int)spec_le32((const unsigned char *)f, SPEC_OFF_SIZE) : -1; }
static int c_hdr_orig(const char *f)
{ return spec_le32((const unsigned char *)f, SPEC_OFF_MAGIC) == SPEC_MAGIC ? (int)spec_le32((const unsigned char *)f, SPEC_OFF_ORIG) : -1; }

/* fragments_to_string: ret 0 iff all k data indexes are present (first occurrence wins) among well-formed,
 * mutually consistent headers; then *out is a fresh buffer of orig bytes = concatenated payloads, *len = orig.
 * otherwise negative and *out == NULL.  Inputs not written. */
static int c_fragments_to_string(int k, int m, char **frags, int nf, char **out, uint64_t *len)
{
  REQ(k == K && m == M, "fragments_to_string.requires: k, m of the instance");
  REQ(__CPROVER_w_ok(out, sizeof *out) && __CPROVER_w_ok(len, sizeof *len), "fragments_to_string.requires: output pointers valid");
  char *slot[K]; int have = 0; int orig = -1;
  for (int i = 0; i < K; i++) slot[i] = NULL;
  *out = NULL;
  if (nf < k) return -1;
  REQ(nf <= FTS_NMAX, "fragments_to_string.requires (slice): list length within the slice bound");
  for (int p = 0; p < FTS_NMAX; p++) if (p < nf) {
    REQ(__CPROVER_r_ok(frags[p], FLEN), "fragments_to_string.requires: every listed fragment readable for fragment_len");
    int idx = c_hdr_idx(frags[p]), size = c_hdr_size(frags[p]);
    if (idx < 0 || size < 0) return -EBADHEADER;
    if (orig < 0) orig = c_hdr_orig(frags[p]);
    else if (c_hdr_orig(frags[p]) != orig) return -EBADHEADER;
    if (idx < k && !slot[idx]) { slot[idx] = frags[p]; have++; }
  }
  if (have != k) return -1;
  REQ(orig == LEN, "fragments_to_string.requires (slice): fragments of the slice's stripe (orig_data_size)");
  char *o = malloc(LEN);
  int off = 0, rem = LEN;
  for (int i = 0; i < K; i++) if (rem > 0) {
    int fs = c_hdr_size(slot[i]);
    REQ(fs == BS, "fragments_to_string.requires (slice): fragments of the slice's stripe (payload size)");
    int n = rem > fs ? fs : rem;
    for (int t = 0; t < BS; t++) if (t < n) o[off + t] = slot[i][80 + t];
    off += n; rem -= n;
  }
  *out = o; *len = LEN;
  return 0;
}

/* get_fragment_partition: slot = LAST supplied fragment with that index else NULL; missing = strictly
 * increasing complement, -1 terminated (the caller pre-fills -1); -EBADHEADER on the first header whose
 * index is not in [0,k+m) (or magic not native); -EINSUFFFRAGS iff more than m indexes are missing. */
static int c_get_fragment_partition(int k, int m, char **frags, int nf, char **data, char **parity, int *missing)
{
  REQ(k == K && m == M, "get_fragment_partition.requires: k, m of the instance");
  REQ(__CPROVER_w_ok(data, sizeof(char *) * K) && (M == 0 || __CPROVER_w_ok(parity, sizeof(char *) * M)), "get_fragment_partition.requires: slot arrays of k resp. m entries");
  REQ(__CPROVER_w_ok(missing, sizeof(int) * (N + 1)), "get_fragment_partition.requires: missing list of k+m+1 entries");
  for (int i = 0; i < K; i++) data[i] = NULL;
  for (int j = 0; j < M; j++) parity[j] = NULL;
  REQ(nf <= FTS_NMAX, "get_fragment_partition.requires (slice): list length within the slice bound");
  for (int p = 0; p < FTS_NMAX; p++) if (p < nf) {
    REQ(__CPROVER_r_ok(frags[p], 80), "get_fragment_partition.requires: every listed fragment has a readable header");
    int idx = c_hdr_idx(frags[p]);
    if (idx < 0 || idx >= N) return -EBADHEADER;
    if (idx < K) data[idx] = frags[p]; else parity[idx - K] = frags[p];
  }
  int nm = 0;
  for (int i = 0; i < N; i++) if (!(i < K ? data[i] : parity[i - K])) missing[nm++] = i;
  return nm > M ? -EINSUFFFRAGS : 0;
}

/* prepare_fragments_for_decode: NULL slots become fresh, zeroed, 16-aligned fragment buffers of fragment_size
 * bytes with the magic set; misaligned slots become aligned copies; originals neither written nor freed;
 * realloc_bm bit set exactly for replaced slots; sizes read from the first available fragment. */
static int c_prepare_fragments_for_decode(int k, int m, char **data, char **parity, int *missing,
                                          int *orig, int *bs, int fragment_size, uint64_t *realloc_bm)
{
  REQ(k == K && m == M, "prepare_fragments_for_decode.requires: k, m of the instance");
  REQ(fragment_size == FLEN, "prepare_fragments_for_decode.requires: fragment_size is the stripe's fragment length");
  unsigned long long mbm = 0;
  int done = 0;
  for (int q = 0; q <= N; q++) if (!done) {
    if (missing[q] < 0) done = 1;
    else { REQ(missing[q] < N, "prepare_fragments_for_decode.requires: missing indexes in range"); mbm |= 1ull << missing[q]; }
  }
  int o = -1, b = -1;
  for (int i = 0; i < N; i++) {
    char **s = i < K ? &data[i] : &parity[i - K];
    if (!*s) {
      char *f = malloc(FLEN);
      for (int t = 0; t < FLEN; t++) f[t] = 0;
      f[59] = (char)0xcc; f[60] = 0x5e; f[61] = 0x0c; f[62] = 0x0b;
      *s = f; *realloc_bm |= 1ull << i;
    } else {
      REQ(__CPROVER_r_ok(*s, FLEN), "prepare_fragments_for_decode.requires: supplied fragments readable for fragment_size");
      if ((((unsigned long)*s) & 15) != 0) {
        char *f = malloc(FLEN);
        for (int t = 0; t < FLEN; t++) f[t] = (*s)[t];
        *s = f; *realloc_bm |= 1ull << i;
      }
    }
    if (!((mbm >> i) & 1) && o < 0) {
      o = c_hdr_orig(*s);
      if (o < 0) return -EBADHEADER;
      b = c_hdr_size(*s);
    }
  }
  *orig = o; *bs = b;
  return 0;
}
#endif

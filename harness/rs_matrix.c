/* L2 / C04: make_systematic_matrix(K,M) == closed form, for one shape (K,M) per run (case split over
 * all 496 shapes).  Real code: make_systematic_matrix, create_non_systematic_vand_matrix,
 * get_non_zero_diagonal, swap_matrix_rows, col_mult, col_mult_and_add. */
#include "common.h"
#include <stdlib.h>
#include "rsv.h"
int *make_systematic_matrix(int k, int m);
void harness(void)
{
  int k = K, m = M;
  int *g = make_systematic_matrix(k, m);
  __CPROVER_assert(g != NULL, "make_systematic_matrix returns a matrix");
  for (int r = 0; r < k; r++)
    for (int j = 0; j < k; j++)
      __CPROVER_assert(g[r * k + j] == (r == j), "C04: top k x k block is the identity (systematic)");
  for (int j = 0; j < k; j++)
    __CPROVER_assert(g[k * k + j] == 1, "C04: first parity row is all ones (first parity = XOR of the data)");
  for (int r = k; r < k + m; r++)
    for (int j = 0; j < k; j++)
      __CPROVER_assert((unsigned)g[r * k + j] == rsv_coeff(k, r, j), "C04: parity coefficient == L_j(r)/L_j(k) closed form");
  free(g);
  CANARY("matrix built");
}

/* Ghost-cell model of the stripe buffers for the flat-XOR code-level proofs.
 * Every buffer (k data, m parity, scratch) is a 1-byte object holding the byte at the ghost index g_t
 * of the real buffer; its real length is the ghost constant g_bs (symbolic).  The kernels that touch
 * buffer contents are replaced by their contracts at that ghost byte (the contracts enforced on the
 * real bodies by xor.xor_bufs_and_store.*, xor.fast_memcpy; memset/posix_memalign: libc, assumed):
 *   requires  the pointer is the base of a buffer, the length argument is exactly g_bs, buffers distinct
 *   ensures   byte g_t updated as specified
 * Any access of the real code to buffer contents outside these kernels, or with another length,
 * fails an obligation (bounds of the 1-byte cell / requires). */
#include <stddef.h>
int g_bs;
/* frame of the backend operation (interface contract: "assigns only the buffers of missing indexes"): the harness publishes
 * its cell array and the set of missing indexes; every kernel write must land in a missing cell or in the code's own scratch */
char *g_cells; int g_ncells; unsigned g_wmask;
#define WRITABLE(p) (!__CPROVER_same_object((p), g_cells) || ((g_wmask >> (unsigned)((char *)(p) - g_cells)) & 1u))
/* a buffer is one cell: either an element of the harness's cell array or a 1-byte scratch object */
#define IS_BASE(p) (__CPROVER_rw_ok(p, 1))
void xor_bufs_and_store(char *buf1, char *buf2, int blocksize)
{
  __CPROVER_assert(blocksize == g_bs, "xor_bufs_and_store.requires: length == blocksize of the stripe");
  __CPROVER_assert(IS_BASE(buf1) && IS_BASE(buf2), "xor_bufs_and_store.requires: both arguments are whole buffers of blocksize bytes");
  __CPROVER_assert(buf1 != buf2, "xor_bufs_and_store.requires: distinct buffers");
  __CPROVER_assert(WRITABLE(buf2), "C15: the code writes only into buffers of missing fragments or its own scratch (never into a supplied fragment, not even transiently)");
  *buf2 = (char)(*buf2 ^ *buf1);
}
void fast_memcpy(char *dst, char *src, int size)
{
  __CPROVER_assert(size == g_bs, "fast_memcpy.requires: length == blocksize of the stripe");
  __CPROVER_assert(IS_BASE(dst) && IS_BASE(src), "fast_memcpy.requires: both arguments are whole buffers of blocksize bytes");
  __CPROVER_assert(dst != src, "fast_memcpy.requires: distinct buffers");
  __CPROVER_assert(WRITABLE(dst), "C15: the code writes only into buffers of missing fragments or its own scratch (never into a supplied fragment, not even transiently)");
  *dst = *src;
}
void *memset(void *s, int c, size_t n)
{
  __CPROVER_assert(n == (size_t)g_bs, "memset.requires: length == blocksize of the stripe");
  __CPROVER_assert(IS_BASE(s), "memset.requires: a whole buffer of blocksize bytes");
  __CPROVER_assert(WRITABLE(s), "C15: the code writes only into buffers of missing fragments or its own scratch (never into a supplied fragment, not even transiently)");
  *(char *)s = (char)c;
  return s;
}
void *malloc(size_t);
int posix_memalign(void **memptr, size_t alignment, size_t size)
{
  __CPROVER_assert(size == (size_t)g_bs && alignment == 16, "posix_memalign: a 16-aligned scratch buffer of blocksize bytes");
  *memptr = malloc(1);
  return 0;
}

/* Callee contract of region_dot_product in executable form (the statement enforced on the real
 * body by job rsv.region_dot_product). */
#include <stdint.h>
#include "gf_uf.h"
extern int g_t;
#define g_w (g_t / 2)
void region_dot_product(char **from_bufs, char *to_buf, int *matrix_row, int num_entries, int blocksize)
{
  __CPROVER_assert(0 <= num_entries && num_entries <= 32, "region_dot_product.requires: 0 <= num_entries <= 32");
  __CPROVER_assert(blocksize >= 0 && blocksize % 2 == 0, "region_dot_product.requires: blocksize even (whole 16-bit words)");
  __CPROVER_assert(__CPROVER_w_ok(to_buf, blocksize), "region_dot_product.requires: to_buf writable for blocksize");
  __CPROVER_assert(__CPROVER_r_ok(matrix_row, sizeof(int) * num_entries), "region_dot_product.requires: matrix row readable for num_entries");
  uint16_t acc = blocksize ? ((uint16_t *)to_buf)[g_w] : 0;
  for (int i = 0; i < 32; i++) if (i < num_entries) {
    __CPROVER_assert(__CPROVER_r_ok(from_bufs[i], blocksize), "region_dot_product.requires: from_bufs[i] readable for blocksize");
    __CPROVER_assert(blocksize == 0 || !__CPROVER_same_object(from_bufs[i], to_buf), "region_dot_product.requires: to_buf distinct from every source");
    __CPROVER_assert(0 <= matrix_row[i] && matrix_row[i] < 65536, "region_dot_product.requires: coefficients are field elements");
    if (blocksize) acc ^= GFAPPLY(((uint16_t *)from_bufs[i])[g_w], matrix_row[i]);
  }
  if (blocksize == 0) return;
  __CPROVER_havoc_slice(to_buf, blocksize);
  ((uint16_t *)to_buf)[g_w] = acc;
}

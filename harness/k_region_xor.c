/* L1: region_xor (src/builtin/rs_vand/liberasurecode_rs_vand.c): 32-bit main loop + byte tail,
 * blocksize symbolic up to INT_MAX; statement at an arbitrary ghost byte g_t = for every byte. */
#include "common.h"
void region_xor(char *from_buf, char *to_buf, int blocksize);
int g_t;
void c_region_xor(char *from_buf, char *to_buf, int blocksize)
#ifdef BS0
__CPROVER_requires(blocksize == 0)
#else
__CPROVER_requires(blocksize >= 1 && blocksize <= 2147483647)
__CPROVER_requires(0 <= g_t && g_t < blocksize)
#endif
__CPROVER_requires(__CPROVER_is_fresh(from_buf, blocksize))
__CPROVER_requires(__CPROVER_is_fresh(to_buf, blocksize))
__CPROVER_assigns(__CPROVER_object_upto(to_buf, blocksize))
#ifndef BS0
__CPROVER_ensures(to_buf[g_t] == (char)(__CPROVER_old(to_buf[g_t]) ^ from_buf[g_t]))
__CPROVER_ensures(from_buf[g_t] == __CPROVER_old(from_buf[g_t]))
#endif
;
void harness(void)
{
  char *f, *t; int in_bs = nondet_int();
  region_xor(f, t, in_bs);
  CANARY("region_xor returns");
}

/* L0 bounded stand-in (EXHAUSTIVE over the full domain, native, not a verifier proof):
 * rs_galois_mult / rs_galois_div / rs_galois_inverse of /repo (log/antilog tables built by the real
 * rs_galois_init_tables) against the table-free GF(2^16)/0x1100b specification, for all 2^32 operand
 * pairs.  CBMC cannot unwind the 65535-iteration table construction (>30 min, see DESIGN.md). */
#include <stdio.h>
#include <stdlib.h>
#include "gf16.h"
void rs_galois_init_tables(void);
void rs_galois_deinit_tables(void);
int rs_galois_mult(int x, int y);
int rs_galois_div(int x, int y);
int rs_galois_inverse(int x);
extern int *log_table, *ilog_table;
int main(void)
{
  rs_galois_init_tables();
  long long bad = 0, cases = 0;
  printf("OBLIGATION rs_galois_mult(x,y) == gf16_mul(x,y) for all x,y in [0,65536)\n");
  printf("OBLIGATION rs_galois_div(x,y) * y == x for all x, all y != 0 ; rs_galois_div(x,0) == -1 for x != 0 ; div(0,y)==0\n");
  printf("OBLIGATION rs_galois_inverse(x) * x == 1 for all x != 0\n");
  printf("OBLIGATION gf16_mul(x,1) == x and gf16_mul(x,0) == 0 for all x (a coefficient of 1 is a plain xor)\n");
  printf("OBLIGATION table shape: log_table[x] in [0,65534] for x != 0; ilog_table valid on [-65535, 131069]\n");
#pragma omp parallel for reduction(+:bad,cases) schedule(dynamic, 64)
  for (int x = 0; x < 65536; x++) {
    /* spec row by the definition, one product per y */
    for (int y = 0; y < 65536; y++) {
      unsigned want = gf16_mul((unsigned)x, (unsigned)y);
      int got = rs_galois_mult(x, y);
      cases++;
      if ((unsigned)got != want) { if (bad < 3) printf("FAIL rs_galois_mult(%d,%d) = %d, spec %u\n", x, y, got, want); bad++; }
      int d = rs_galois_div(x, y);
      if (x == 0) { if (d != 0) { bad++; printf("FAIL rs_galois_div(0,%d) = %d\n", y, d); } }
      else if (y == 0) { if (d != -1) { bad++; printf("FAIL rs_galois_div(%d,0) = %d\n", x, d); } }
      else if (d < 0 || d > 65535 || gf16_mul((unsigned)d, (unsigned)y) != (unsigned)x) { if (bad < 3) printf("FAIL rs_galois_div(%d,%d) = %d\n", x, y, d); bad++; }
    }
    if (x) {
      int inv = rs_galois_inverse(x);
      if (inv <= 0 || inv > 65535 || gf16_mul((unsigned)inv, (unsigned)x) != 1u) { printf("FAIL rs_galois_inverse(%d) = %d\n", x, inv); bad++; }
      if (gf16_inv((unsigned)x) != (unsigned)inv) { printf("FAIL gf16_inv(%d) != rs_galois_inverse\n", x); bad++; }
      if (log_table[x] < 0 || log_table[x] > 65534) { printf("FAIL log_table[%d] = %d out of range\n", x, log_table[x]); bad++; }
    }
    if (gf16_mul((unsigned)x, 1u) != (unsigned)x || gf16_mul((unsigned)x, 0u) != 0u) { printf("FAIL spec identity at %d\n", x); bad++; }
  }
  printf("SAMPLE rs_galois_mult(2,32768)=%d spec=%u\n", rs_galois_mult(2, 32768), gf16_mul(2, 32768));
  printf("SAMPLE rs_galois_inverse(3)=%d spec=%u\n", rs_galois_inverse(3), gf16_inv(3));
  printf("CASES %lld\n", cases);
  rs_galois_deinit_tables();
  return bad ? 1 : 0;
}

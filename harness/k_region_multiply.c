/* L1: region_multiply (src/builtin/rs_vand/liberasurecode_rs_vand.c), both loops,
 * blocksize symbolic (even, as every call site provides: blocksize is a multiple of w/8 = 2). */
#include "common.h"
#include "gf_uf.h"
void region_multiply(char *from_buf, char *to_buf, int mult, int xor, int blocksize);
int g_w;   /* ghost 16-bit word index: arbitrary, so the statement holds for every word */
unsigned short g_prod;  /* ghost: the product for word g_w (loop invariants may not call functions) */
void c_region_multiply(char *from_buf, char *to_buf, int mult, int xor, int blocksize)
#ifdef BS0   /* the empty block (data length 0): separate, loops closed by unwinding (no iteration) */
__CPROVER_requires(blocksize == 0)
#else
__CPROVER_requires(blocksize >= 2 && blocksize <= 2147483646 && blocksize % 2 == 0)
#endif
__CPROVER_requires(0 <= mult && mult < 65536)
__CPROVER_requires(0 <= g_w && (blocksize == 0 || g_w < blocksize / 2))
__CPROVER_requires(__CPROVER_is_fresh(from_buf, blocksize))
__CPROVER_requires(__CPROVER_is_fresh(to_buf, blocksize))
#ifndef BS0
__CPROVER_requires(blocksize > 0 ==> g_prod == GFMUL(((uint16_t *)from_buf)[g_w], mult))
#endif
__CPROVER_assigns(__CPROVER_object_upto(to_buf, blocksize))
#ifndef BS0
__CPROVER_ensures(blocksize > 0 ==> ((uint16_t *)to_buf)[g_w] ==
   (uint16_t)((xor ? __CPROVER_old(((uint16_t *)to_buf)[g_w]) : 0) ^ GFMUL(((uint16_t *)from_buf)[g_w], mult)))
__CPROVER_ensures(blocksize > 0 ==> ((uint16_t *)from_buf)[g_w] == __CPROVER_old(((uint16_t *)from_buf)[g_w]))
#endif
;
void harness(void)
{
  char *f, *t; int in_mult = nondet_int(), in_xor = nondet_int(), in_bs = nondet_int();
  region_multiply(f, t, in_mult, in_xor, in_bs);
  CANARY("region_multiply returns");
}

/* Callee contracts of the XOR kernels in executable form (assert requires, havoc frame, establish
 * ensures at the ghost byte g_t).  Contract texts = the ones enforced on the real bodies by
 * xor.xor_bufs_and_store.* and xor.fast_memcpy. */
extern int g_t;
void xor_bufs_and_store(char *buf1, char *buf2, int blocksize)
{
  __CPROVER_assert(blocksize >= 0, "xor_bufs_and_store.requires: blocksize >= 0");
  __CPROVER_assert(__CPROVER_r_ok(buf1, blocksize), "xor_bufs_and_store.requires: buf1 readable for blocksize");
  __CPROVER_assert(__CPROVER_w_ok(buf2, blocksize), "xor_bufs_and_store.requires: buf2 writable for blocksize");
  __CPROVER_assert(blocksize == 0 || !__CPROVER_same_object(buf1, buf2), "xor_bufs_and_store.requires: distinct buffers");
  if (blocksize == 0) return;
  char v = (char)(buf2[g_t] ^ buf1[g_t]);
  __CPROVER_havoc_slice(buf2, blocksize);
  buf2[g_t] = v;
}
void fast_memcpy(char *dst, char *src, int size)
{
  __CPROVER_assert(size >= 0, "fast_memcpy.requires: size >= 0");
  __CPROVER_assert(__CPROVER_r_ok(src, size), "fast_memcpy.requires: src readable for size");
  __CPROVER_assert(__CPROVER_w_ok(dst, size), "fast_memcpy.requires: dst writable for size");
  __CPROVER_assert(size == 0 || !__CPROVER_same_object(dst, src), "fast_memcpy.requires: distinct buffers");
  if (size == 0) return;
  char v = src[g_t];
  __CPROVER_havoc_slice(dst, size);
  dst[g_t] = v;
}

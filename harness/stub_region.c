/* Callee contracts of the RS region kernels in executable form (assert the requires, havoc the
 * assigns frame, establish the ensures).  The contract texts are the ones enforced on the real
 * bodies by jobs rsv.region_xor / rsv.region_multiply; those hold for an arbitrary ghost index,
 * so a caller may use them at both bytes of the ghost word. */
#include <stdint.h>
#include "gf_uf.h"
extern int g_t;
#define g_w (g_t / 2)
void region_xor(char *from_buf, char *to_buf, int blocksize)
{
  __CPROVER_assert(blocksize >= 0, "region_xor.requires: blocksize >= 0");
  __CPROVER_assert(__CPROVER_r_ok(from_buf, blocksize), "region_xor.requires: from_buf readable for blocksize");
  __CPROVER_assert(__CPROVER_w_ok(to_buf, blocksize), "region_xor.requires: to_buf writable for blocksize");
  __CPROVER_assert(blocksize == 0 || !__CPROVER_same_object(from_buf, to_buf), "region_xor.requires: distinct buffers");
  if (blocksize == 0) return;
  uint16_t o = ((uint16_t *)to_buf)[g_w], f = ((uint16_t *)from_buf)[g_w];
  __CPROVER_havoc_slice(to_buf, blocksize);
  ((uint16_t *)to_buf)[g_w] = o ^ f;
}
void region_multiply(char *from_buf, char *to_buf, int mult, int xor, int blocksize)
{
  __CPROVER_assert(blocksize >= 0 && blocksize % 2 == 0, "region_multiply.requires: blocksize even (whole 16-bit words)");
  __CPROVER_assert(0 <= mult && mult < 65536, "region_multiply.requires: coefficient is a field element");
  __CPROVER_assert(__CPROVER_r_ok(from_buf, blocksize), "region_multiply.requires: from_buf readable for blocksize");
  __CPROVER_assert(__CPROVER_w_ok(to_buf, blocksize), "region_multiply.requires: to_buf writable for blocksize");
  __CPROVER_assert(blocksize == 0 || !__CPROVER_same_object(from_buf, to_buf), "region_multiply.requires: distinct buffers");
  if (blocksize == 0) return;
  uint16_t o = ((uint16_t *)to_buf)[g_w], f = ((uint16_t *)from_buf)[g_w];
  __CPROVER_havoc_slice(to_buf, blocksize);
  ((uint16_t *)to_buf)[g_w] = (uint16_t)((xor ? o : 0) ^ GFMUL(f, mult));
}

/* L1 / C10: liberasurecode_crc32_alt (src/utils/chksum/crc32.c) == historical sign-extending CRC-32.
 *  MODE 1  step lemma: one byte from an ARBITRARY register (2^40 cases): table entry + sign-extending shift
 *  MODE 2  full equivalence with the bit-serial model for every buffer of length <= NMAXLEN  (bounded)
 *  MODE 3  memory safety, exact consumption of size bytes and termination for symbolic size (loop contract)
 * The fold "a loop applying the step to bytes 0..n-1 in order" for longer buffers is (1)+(3) plus the
 * definitional composition, see DESIGN.md. */
#include "common.h"
#include "crc.h"
int liberasurecode_crc32_alt(int crc, const void *buf, size_t size);
#if MODE == 3
int c_crc32_alt(int crc, const void *buf, size_t size)
__CPROVER_requires(size <= 2147483647u)
__CPROVER_requires(__CPROVER_is_fresh(buf, size))
__CPROVER_assigns()
__CPROVER_ensures(1)
;
#endif
void harness(void)
{
#if MODE == 1
  int in_crc = nondet_int(); unsigned char in_b = nondet_uchar();
  int r = liberasurecode_crc32_alt(in_crc, &in_b, 1);
  uint32_t want = spec_crc32_legacy_step((uint32_t)in_crc ^ 0xffffffffu, in_b) ^ 0xffffffffu;
  __CPROVER_assert((uint32_t)r == want, "C10: one step of liberasurecode_crc32_alt == one step of the historical (sign-extending) CRC-32, any register, any byte");
  CANARY("crc step returns");
#elif MODE == 2
  unsigned char in_buf[NMAXLEN]; size_t in_n = nondet_u64();
  __CPROVER_assume(in_n <= NMAXLEN);
  for (int i = 0; i < NMAXLEN; i++) in_buf[i] = nondet_uchar();
  int r = liberasurecode_crc32_alt(0, in_buf, in_n);
  __CPROVER_assert((uint32_t)r == spec_crc32_legacy(in_buf, in_n), "C10: liberasurecode_crc32_alt == bit-serial historical CRC-32 on every short buffer");
  CANARY("crc returns");
#else
  int crc; const void *p; size_t n;
  liberasurecode_crc32_alt(crc, p, n);
  CANARY("crc returns");
#endif
}

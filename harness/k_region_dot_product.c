/* L1: region_dot_product against the contracts of region_xor / region_multiply (both replaced by
 * their contracts in executable form, harness/stub_region.c; dfcc replacement ran out of memory):
 * byte g_t of to_buf becomes old ^ XOR_i byte(g_t, GFAPPLY(word g_t/2 of from_bufs[i], matrix_row[i])).
 * num_entries symbolic in [0,32] (EC_MAX_FRAGMENTS), blocksize symbolic (even), contents symbolic. */
#include "common.h"
#include <stdlib.h>
#include "gf_uf.h"
void region_xor(char *from_buf, char *to_buf, int blocksize);
void region_multiply(char *from_buf, char *to_buf, int mult, int xor, int blocksize);
void region_dot_product(char **from_bufs, char *to_buf, int *matrix_row, int num_entries, int blocksize);
int g_t;                /* ghost byte index; g_t/2 is the ghost word index */
#define g_w (g_t / 2)
#define NMAX 32
void harness(void)
{
  int in_n = nondet_int(), in_bs = nondet_int();
  __CPROVER_assume(0 <= in_n && in_n <= NMAX);
  __CPROVER_assume(in_bs >= 2 && in_bs % 2 == 0);
  g_t = nondet_int();   /* ghost index: arbitrary (globals are zero-initialised unless assigned) */
  __CPROVER_assume(0 <= g_t && g_t < in_bs);
  char *from[NMAX]; int row[NMAX];
  for (int i = 0; i < NMAX; i++) {
    from[i] = malloc(in_bs);
    row[i] = nondet_int(); __CPROVER_assume(0 <= row[i] && row[i] < 65536);
  }
  char *to = malloc(in_bs);
  uint16_t expect = ((uint16_t *)to)[g_w];
  for (int i = 0; i < NMAX; i++) if (i < in_n) expect ^= GFAPPLY(((uint16_t *)from[i])[g_w], row[i]);
  region_dot_product(from, to, row, in_n, in_bs);
  __CPROVER_assert(((uint16_t *)to)[g_w] == expect,
                   "region_dot_product.ensures: word g_t/2 of to_buf == old ^ XOR_i GFAPPLY(from_i word, matrix_row[i])");
  CANARY("region_dot_product returns");
}

/* C19: the ISA-L adapters (src/backends/isa-l/isa_l_common.c through isa_l_rs_vand_op_stubs / isa_l_rs_cauchy_op_stubs)
 * relative to ASSUMED contracts of the five ISA-L primitives they bind with dlsym, written below as reference
 * implementations over the independent GF(2^8)/0x11d multiplier (the property's premise: "given any library that
 * implements ISA-L's documented erasure-code primitives"):
 *   gf_mul(a,b)                         field product
 *   gf_gen_rs_matrix / gf_gen_cauchy1_matrix(a,n,k)   identity on top; parity rows  gen^j per row (rs) / 1/(i^j) (cauchy)
 *   gf_invert_matrix(in,out,n)          0 and out*in == I, or -1 when in is singular (or, here, when told to fail: C17)
 *   ec_init_tables(k,rows,a,tbls)       32-byte table per coefficient: products with the 16 low and 16 high nibbles
 *   ec_encode_data(len,k,rows,tbls,data,coding)   coding[r][t] = XOR_j coef(r,j)*data[j][t]  for t < len
 * Real code: isa_l_common_init, isa_l_encode, isa_l_get_decode_matrix, get_inverse_rows, mult_and_xor_row,
 * get_num_missing_elements, isa_l_decode, isa_l_reconstruct, isa_l_min_fragments, isa_l_exit, isa_l_element_size.
 * One shape (K,M) and generator per run; erasure sets = all masks in [MLO,MHI] (complete split of the subsets over the
 * runs of a shape).  Ghost-cell buffers (one byte per stripe buffer = its byte at the ghost index; blocksize symbolic).
 * Data: the k scaled unit vectors (decode of a fixed erasure set is GF(2^8)-linear: exact on a basis = exact everywhere).
 *   inversion succeeds  => decode / reconstruct return 0 and every missing buffer (resp. the destination) is exact
 *   inversion fails (singular survivors, or injected) => a negative code
 *   either way nothing is leaked, survivors are not written */
#include "common.h"
#include <stdlib.h>
#include <string.h>
#include "erasurecode.h"
#include "erasurecode_backend.h"
#include "erasurecode_version.h"
#ifdef CAUCHY
#define OPS isa_l_rs_cauchy_op_stubs
#define BACKEND backend_isa_l_rs_cauchy
#define BEID EC_BACKEND_ISA_L_RS_CAUCHY
#else
#define OPS isa_l_rs_vand_op_stubs
#define BACKEND backend_isa_l_rs_vand
#define BEID EC_BACKEND_ISA_L_RS_VAND
#endif
extern struct ec_backend_op_stubs OPS;
extern struct ec_backend_common BACKEND;
#define N (K + M)
#ifdef GENERIC
#define NUNITS 1
#define FAILSEL 0
#else
#define NUNITS K
#define FAILSEL nondet_bool()
#endif
#ifndef LL
#define LL 6
#endif
#ifndef MLO
#define MLO 0
#define MHI ((1u << N) - 1)
#endif
/* ---------------- GF(2^8), polynomial 0x11d: independent shift-xor specification ---------------- */
static unsigned char gf8_mul(unsigned char a, unsigned char b)
{
  unsigned r = 0, x = a;
  for (int i = 0; i < 8; i++) { if ((b >> i) & 1) r ^= x; x <<= 1; if (x & 0x100) x ^= 0x11d; }
  return (unsigned char)r;
}
static unsigned char gf8_inv(unsigned char a)
{ unsigned char r = 1, s = a; for (int i = 0; i < 7; i++) { s = gf8_mul(s, s); r = gf8_mul(r, s); } return r; }   /* a^254 */
/* ---------------- the five primitives (assumed contracts, reference form) ---------------- */
int g_bs; int in_fail_invert; int n_invert_failed;
unsigned cur_mask; int cur_dest, cur_unit; int g_write_any;   /* g_write_any: encode (parity buffers are the outputs) */
static unsigned char *cellp[K + M];
unsigned char gf_mul(unsigned char a, unsigned char b) { return gf8_mul(a, b); }
void gf_gen_rs_matrix(unsigned char *a, int n, int k)
{
  __CPROVER_assert(n == N && k == K, "gf_gen_rs_matrix.requires: (k+m) rows, k columns");
  __CPROVER_assert(__CPROVER_w_ok(a, (size_t)n * k), "gf_gen_rs_matrix.requires: matrix buffer of n*k bytes");
  memset(a, 0, (size_t)n * k);
  for (int i = 0; i < k; i++) a[k * i + i] = 1;
  unsigned char gen = 1;
  for (int i = k; i < n; i++) { unsigned char p = 1; for (int j = 0; j < k; j++) { a[k * i + j] = p; p = gf8_mul(p, gen); } gen = gf8_mul(gen, 2); }
}
void gf_gen_cauchy1_matrix(unsigned char *a, int n, int k)
{
  __CPROVER_assert(n == N && k == K, "gf_gen_cauchy1_matrix.requires: (k+m) rows, k columns");
  __CPROVER_assert(__CPROVER_w_ok(a, (size_t)n * k), "gf_gen_cauchy1_matrix.requires: matrix buffer of n*k bytes");
  memset(a, 0, (size_t)n * k);
  for (int i = 0; i < k; i++) a[k * i + i] = 1;
  for (int i = k; i < n; i++) for (int j = 0; j < k; j++) a[k * i + j] = gf8_inv((unsigned char)(i ^ j));
}
int gf_invert_matrix(unsigned char *in, unsigned char *out, const int n)
{
  __CPROVER_assert(n == K, "gf_invert_matrix.requires: a k x k matrix");
  __CPROVER_assert(__CPROVER_rw_ok(in, (size_t)n * n) && __CPROVER_w_ok(out, (size_t)n * n), "gf_invert_matrix.requires: two n*n byte buffers");
  if (in_fail_invert) { n_invert_failed++; return -1; }            /* C17: the primitive may report failure */
  unsigned char a[K * K];
  for (int i = 0; i < n * n; i++) { a[i] = in[i]; out[i] = 0; }
  for (int i = 0; i < n; i++) out[i * n + i] = 1;
  for (int i = 0; i < n; i++) {
    int p = -1;
    for (int r = i; r < n; r++) if (p < 0 && a[r * n + i]) p = r;
    if (p < 0) { n_invert_failed++; return -1; }                   /* singular */
    if (p != i) for (int j = 0; j < n; j++) { unsigned char t = a[i * n + j]; a[i * n + j] = a[p * n + j]; a[p * n + j] = t; t = out[i * n + j]; out[i * n + j] = out[p * n + j]; out[p * n + j] = t; }
    unsigned char v = gf8_inv(a[i * n + i]);
    for (int j = 0; j < n; j++) { a[i * n + j] = gf8_mul(a[i * n + j], v); out[i * n + j] = gf8_mul(out[i * n + j], v); }
    for (int r = 0; r < n; r++) if (r != i) { unsigned char f = a[r * n + i];
      for (int j = 0; j < n; j++) { a[r * n + j] ^= gf8_mul(f, a[i * n + j]); out[r * n + j] ^= gf8_mul(f, out[i * n + j]); } }
  }
  return 0;
}
void ec_init_tables(int k, int rows, unsigned char *a, unsigned char *tbls)
{
  __CPROVER_assert(k == K && 0 <= rows && rows <= M, "ec_init_tables.requires: k columns, at most m rows (the table buffers hold k*m*32 bytes)");
  __CPROVER_assert(__CPROVER_r_ok(a, (size_t)k * rows), "ec_init_tables.requires: rows*k coefficients readable");
  __CPROVER_assert(__CPROVER_w_ok(tbls, (size_t)32 * k * rows), "ec_init_tables.requires: 32*k*rows bytes of table space");
  for (int c = 0; c < k * rows; c++) for (int v = 0; v < 16; v++) { tbls[32 * c + v] = gf8_mul(a[c], (unsigned char)v); tbls[32 * c + 16 + v] = gf8_mul(a[c], (unsigned char)(v << 4)); }
}
void ec_encode_data(int len, int k, int rows, unsigned char *tbls, unsigned char **data, unsigned char **coding)
{
  __CPROVER_assert(len == g_bs, "ec_encode_data.requires: length == blocksize of the stripe");
  __CPROVER_assert(k == K && 0 <= rows && rows <= M, "ec_encode_data.requires: k sources, at most m destinations");
  __CPROVER_assert(__CPROVER_r_ok(tbls, (size_t)32 * k * rows), "ec_encode_data.requires: tables for k*rows coefficients");
  for (int r = 0; r < rows; r++) {
    __CPROVER_assert(__CPROVER_w_ok(coding[r], 1), "ec_encode_data.requires: every destination is a whole stripe buffer");
    for (int i = 0; i < N; i++) if (cellp[i] == coding[r])
      __CPROVER_assert(g_write_any || ((cur_mask >> i) & 1u), "C15: the adapter writes only into buffers of missing fragments (never into a supplied fragment)");
    unsigned char acc = 0;
    for (int j = 0; j < k; j++) {
      __CPROVER_assert(__CPROVER_r_ok(data[j], 1), "ec_encode_data.requires: every source is a whole stripe buffer");
      __CPROVER_assert(data[j] != coding[r], "ec_encode_data.requires: sources and destinations distinct");
      unsigned char x = *data[j];
      acc ^= tbls[32 * (r * k + j) + (x & 15)] ^ tbls[32 * (r * k + j) + 16 + (x >> 4)];
    }
    *coding[r] = acc;                       /* overwrite semantics (ISA-L does not accumulate) */
  }
}
int in_absent;
void *dlsym(void *h, const char *name)
{
  static int seen; int bit = seen++;
  if ((in_absent >> bit) & 1) return NULL;
  if (!strcmp(name, "ec_encode_data")) return (void *)ec_encode_data;
  if (!strcmp(name, "ec_init_tables")) return (void *)ec_init_tables;
  if (!strcmp(name, "gf_gen_rs_matrix")) return (void *)gf_gen_rs_matrix;
  if (!strcmp(name, "gf_gen_cauchy1_matrix")) return (void *)gf_gen_cauchy1_matrix;
  if (!strcmp(name, "gf_invert_matrix")) return (void *)gf_invert_matrix;
  if (!strcmp(name, "gf_mul")) return (void *)gf_mul;
  __CPROVER_assert(0, "dlsym.requires: a symbol libisal exports");
  return NULL;
}
#define cell(i) (*cellp[i])
static int popc(unsigned x) { int c = 0; for (int i = 0; i < 32; i++) c += (x >> i) & 1u; return c; }
void harness(void)
{
  struct ec_backend_args a;
  a.uargs.k = K; a.uargs.m = M; a.uargs.hd = M;
#if MODE == 0
  /* init / exit: any subset of symbols absent, caller's w arbitrary */
  int in_w = nondet_int(); __CPROVER_assume(-1 <= in_w && in_w <= 32);   /* word sizes a caller can meaningfully ask for (w >= 63 shifts out of range in the adapter: outside every listed property) */
  a.uargs.w = in_w; int w_in = in_w;
  in_absent = nondet_int();
  void *desc0 = OPS.init(&a, (void *)&g_bs);
  int w_eff = w_in <= 0 ? 8 : w_in;
  int fits = w_eff >= 31 || (long long)N <= (1LL << w_eff);
  if ((in_absent & 0x1f) == 0 && fits) __CPROVER_assert(desc0 != NULL, "isa_l_common_init.ensures: complete library and k+m <= 2^w yield a descriptor");
  if ((in_absent & 0x1f) != 0 || !fits) { __CPROVER_assert(desc0 == NULL, "C13/C17: an incomplete library or k+m > 2^w is refused"); CANARY("init refuses"); }
  if (desc0) {
    __CPROVER_assert(a.uargs.w == w_eff, "isa_l_common_init.ensures: w defaults to 8 when the caller gives none");
    __CPROVER_assert(OPS.element_size(desc0) == 8, "C08: ISA-L element size is 8 bits");
    uint32_t in_v = nondet_u32();
    __CPROVER_assert(OPS.is_compatible_with(in_v) == (in_v == BACKEND.ec_backend_version), "C12: the adapter accepts exactly its own backend version");
    __CPROVER_assert(BACKEND.id == BEID, "C07: backend id written into headers is the pinned one");
    __CPROVER_assert(OPS.exit(desc0) == 0, "isa_l_exit.ensures: success");
    CANARY("init accepts");
  }
#else
  a.uargs.w = 0; in_absent = 0;
  void *desc = OPS.init(&a, (void *)&g_bs);
  __CPROVER_assert(desc != NULL, "isa_l_common_init.ensures: supported shape accepted");
  unsigned char G[N * K];
#ifdef CAUCHY
  gf_gen_cauchy1_matrix(G, N, K);
#else
  gf_gen_rs_matrix(G, N, K);
#endif
  g_bs = nondet_int(); __CPROVER_assume(g_bs >= 1);
  for (int i = 0; i < N; i++) cellp[i] = malloc(1);
  char *data[K], *parity[M > 0 ? M : 1];
  for (int i = 0; i < K; i++) data[i] = (char *)cellp[i];
  for (int j = 0; j < M; j++) parity[j] = (char *)cellp[K + j];
  unsigned char s[N];
#if MODE == 4
  /* fragments-needed planner (same obligations as the Reed-Solomon adapter) */
  {
    int n = N, in_r[LL + 1], in_x[LL + 1], r0[LL + 1], x0[LL + 1];
    int in_nr = nondet_int(), in_nx = nondet_int();
    __CPROVER_assume(0 <= in_nr && in_nr <= LL && 0 <= in_nx && in_nx <= LL);
    unsigned long long un = 0;
    for (int i = 0; i <= LL; i++) {
      in_r[i] = nondet_int(); in_x[i] = nondet_int();
      if (i < in_nr) { __CPROVER_assume(0 <= in_r[i] && in_r[i] < n); un |= 1ULL << in_r[i]; } else in_r[i] = -1;
      if (i < in_nx) { __CPROVER_assume(0 <= in_x[i] && in_x[i] < n); un |= 1ULL << in_x[i]; } else in_x[i] = -1;
      r0[i] = in_r[i]; x0[i] = in_x[i];
    }
    int navail = 0; for (int i = 0; i < 32; i++) if (i < n && !((un >> i) & 1)) navail++;
    int *out = malloc(sizeof(int) * n);
    for (int i = 0; i < n; i++) out[i] = 0x7fffffff;
    int rc = OPS.fragments_needed(desc, in_r, in_x, out);
    __CPROVER_assert(rc <= 0, "C06: fragments_needed returns 0 or a negative error code");
    __CPROVER_assert((rc == 0) == (navail >= K), "C19/C06: the query succeeds exactly when at least k fragments remain, else an error");
    if (rc == 0) {
      int prev = -1;
      for (int j = 0; j < K; j++) {
        __CPROVER_assert(0 <= out[j] && out[j] < n, "C06: every returned index lies in 0..k+m-1");
        __CPROVER_assert(out[j] > prev, "C06: returned indexes are distinct (strictly increasing)");
        __CPROVER_assert(!((un >> (out[j] & 63)) & 1), "C06: the answer contains none of the requested or excluded indexes");
        prev = out[j];
      }
      __CPROVER_assert(out[K] == -1, "C06: exactly k indexes, -1 terminated");
      CANARY("planner succeeds");
    }
    for (int i = 0; i <= LL; i++) __CPROVER_assert(in_r[i] == r0[i] && in_x[i] == x0[i], "C15: the request and exclude lists are not modified");
    free(out);
  }
#elif MODE == 1
  /* encode == the generator applied to the data (scaled unit vectors) */
  for (int u = 0; u < K; u++) {
    for (int j = 0; j < K; j++) s[j] = (j == u) ? 0xA7 : 0;
    for (int r = K; r < N; r++) { s[r] = 0; for (int j = 0; j < K; j++) s[r] ^= gf8_mul(G[r * K + j], s[j]); }
    for (int i = 0; i < N; i++) cell(i) = i < K ? s[i] : 0;
    g_write_any = 0; cur_mask = ((1u << N) - 1) & ~((1u << K) - 1);      /* encode may write the parity buffers only */
    __CPROVER_assert(OPS.encode(desc, data, parity, g_bs) == 0, "isa_l_encode.ensures: success");
    for (int i = 0; i < N; i++) __CPROVER_assert(cell(i) == s[i], "C19/C01: encode writes parity = generator x data and leaves the data alone");
  }
#else
  int ncases = 0, nok = 0, nrefused = 0;
  for (unsigned mask = MLO; mask <= MHI; mask++)
  for (int u = 0; u < NUNITS; u++) {
    int nmiss = popc(mask);
    if (nmiss > M || nmiss == 0) continue;             /* the front end lets through at most m erasures; nothing to do for none */
#ifdef GENERIC
    for (int j = 0; j < K; j++) s[j] = (unsigned char)(0xA7u + 0x1Du * (unsigned)j);     /* sampled shapes: one generic data vector */
#else
    for (int j = 0; j < K; j++) s[j] = (j == u) ? 0xA7 : 0;
#endif
    for (int r = K; r < N; r++) { s[r] = 0; for (int j = 0; j < K; j++) s[r] ^= gf8_mul(G[r * K + j], s[j]); }
    cur_mask = mask; cur_unit = u; cur_dest = -1;
    int missing[N + 1], q = 0;
    for (int i = 0; i < N; i++) if ((mask >> i) & 1u) missing[q++] = i;
    for (int i = q; i <= N; i++) missing[i] = -1;
#if MODE == 2
    for (int i = 0; i < N; i++) cell(i) = ((mask >> i) & 1u) ? 0 : s[i];
    in_fail_invert = FAILSEL; int f0 = n_invert_failed;
    int rc = OPS.decode(desc, data, parity, missing, g_bs);
    __CPROVER_assert(rc <= 0, "isa_l_decode.ensures: 0 or negative");
    if (n_invert_failed != f0) { __CPROVER_assert(rc < 0, "C19/C17: when matrix inversion fails decode returns an error"); nrefused++; }
    else __CPROVER_assert(rc == 0, "C19: decode succeeds for every erasure set whose surviving rows are invertible");
    if (rc == 0) { for (int i = 0; i < N; i++) __CPROVER_assert(cell(i) == s[i], "C19/C02: success implies every missing data and parity byte is exact (survivors untouched)"); nok++; }
    else for (int i = 0; i < N; i++) if (!((mask >> i) & 1u)) __CPROVER_assert(cell(i) == s[i], "C15: survivors are never written");
    ncases++;
#else
    for (int qq = 0; qq < N; qq++) if (qq < q) {
      int dest = missing[qq]; cur_dest = dest;
      for (int i = 0; i < N; i++) cell(i) = ((mask >> i) & 1u) ? 0 : s[i];
      in_fail_invert = FAILSEL; int f0 = n_invert_failed;
      int rc = OPS.reconstruct(desc, data, parity, missing, dest, g_bs);
      __CPROVER_assert(rc <= 0, "isa_l_reconstruct.ensures: 0 or negative");
      if (n_invert_failed != f0) { __CPROVER_assert(rc < 0, "C19/C17: when matrix inversion fails reconstruct returns an error"); nrefused++; }
      else __CPROVER_assert(rc == 0, "C19: reconstruct succeeds for every erasure set whose surviving rows are invertible and every missing destination");
      if (rc == 0) { __CPROVER_assert(cell(dest) == s[dest], "C19/C03: the reconstructed byte equals the one encode produced for that index"); nok++; }
      for (int i = 0; i < N; i++) if (!((mask >> i) & 1u)) __CPROVER_assert(cell(i) == s[i], "C15: available fragments are not modified by reconstruct");
      ncases++;
    }
#endif
  }
  __CPROVER_assert(ncases > 0, "vacuity: at least one erasure set was checked");
  if (nok > 0) CANARY("an exact result");
#ifndef GENERIC
  if (nrefused > 0) CANARY("a refused request");
#endif
#endif
  for (int i = 0; i < N; i++) free(cellp[i]);
  __CPROVER_assert(OPS.exit(desc) == 0, "isa_l_exit.ensures: success");
#endif
  CANARY("harness end");
}

/* C06 (flat-XOR): the fragments-needed planner through the backend operation flat_xor_hd_min_fragments, one table
 * (K,M,HD) per run.  Real code: flat_xor_hd_init / flat_xor_hd_min_fragments (src/backends/xor/flat_xor_hd.c),
 * init_xor_hd_code, xor_hd_fragments_needed, fragments_needed_one/two/three_data, fragments_needed_one_data_local,
 * get_failure_pattern, get_missing_data/parity, index_of_connected_parity, num_missing_data_in_parity,
 * remove_from_missing_list, missing_elements_bm, is_data_in_parity, does_parity_have_data, data_bit_lookup (src/builtin/xor_codes).
 *
 * Request list R (fragments to rebuild, non-empty) and exclude list X: EVERY pair of lists of pairwise distinct in-range
 * indexes in EVERY order with LMIN <= |R|+|X| <= LMAX, -1 terminated, enumerated inside the harness (the input domain of
 * a table is finite, so this is a complete case split; symbolic lists were tried first and need > 4 GB / > 200 s even for
 * the 6-fragment table).  Postcondition (the property, taken literally):
 *   |R|+|X| < HD  =>  rc == 0
 *   rc == 0       =>  out is a -1 terminated list of distinct indexes in [0,k+m), disjoint from R and X,
 *                     and every row of R lies in the GF(2) span of the rows of out (rows from the GOLDEN equations):
 *                     row(i<k) = e_i, row(k+j) = equation j.  Because data rows are unit vectors, r is in the span iff some
 *                     subset S of the returned parities makes  r ^ XOR_{j in S} eq_j  vanish outside the returned data.
 *   rc != 0       =>  rc < 0  (an error, never a wrong list)
 *   R and X are not modified; the answer fits k+m ints.
 * The same file is the native replay (gcc, no VERIF_CBMC): argv = len nr idx..  ->  exit 1 + REPRODUCED when the
 * real library violates the postcondition for that request. */
#ifdef VERIF_CBMC
#include "common.h"
#else
#include <stdio.h>
#include <stdint.h>
static int g_bad;
#define __CPROVER_assert(c, msg) do { if (!(c)) { printf("REPRODUCED: %s\n", msg); g_bad = 1; } } while (0)
#define __CPROVER_assume(c) do { if (!(c)) { printf("replay input outside the harness precondition: %s\n", #c); return 0; } } while (0)
#define CANARY(x) do { } while (0)
#endif
#include <stdlib.h>
#include "erasurecode.h"
#include "erasurecode_backend.h"
#include "xor_golden.h"
extern struct ec_backend_op_stubs flat_xor_hd_op_stubs;
#define N (K + M)
#ifndef LMAX
#define LMAX 3
#endif
#ifndef LMIN
#define LMIN 1
#endif
static unsigned g_row[M];             /* golden equation of parity j as a mask over data columns (filled once) */
static unsigned rowof(int idx) { return idx < K ? 1u << idx : g_row[idx - K]; }

static void *desc;
int cur_len, cur_nr, cur_seq[4];      /* the request being checked (read back from a counterexample trace for the native replay) */
/* one request: R = seq[0..nr), X = seq[nr..len) */
static int check_request(const int *seq, int len, int nr)
{
  cur_len = len; cur_nr = nr; for (int i = 0; i < 4; i++) cur_seq[i] = seq[i];
  int in_r[LMAX + 1], in_x[LMAX + 1], r0[LMAX + 1], x0[LMAX + 1];
  unsigned rmask = 0, xmask = 0;
  for (int i = 0; i <= LMAX; i++) { in_r[i] = i < nr ? seq[i] : -1; in_x[i] = (i < len - nr) ? seq[nr + i] : -1; }
  for (int i = 0; i <= LMAX; i++) { if (in_r[i] >= 0) rmask |= 1u << in_r[i]; if (in_x[i] >= 0) xmask |= 1u << in_x[i]; r0[i] = in_r[i]; x0[i] = in_x[i]; }
  int *out = malloc(sizeof(int) * N);          /* exactly k+m ints: at most k+m-1 indexes and the terminator */
  for (int i = 0; i < N; i++) out[i] = 0x7fffffff;      /* whatever the planner leaves unwritten is not an index */
#ifdef PROBE_SKIP_CALL
  int rc = -1;
#else
  int rc = flat_xor_hd_op_stubs.fragments_needed(desc, in_r, in_x, out);
#endif
#ifdef PROBE_SKIP_CHECK
  free(out); return rc;
#endif
  __CPROVER_assert(rc <= 0, "C06: fragments_needed returns 0 or a negative error code");
  if (len < HD) __CPROVER_assert(rc == 0, "C06: request plus exclusions within the code's tolerance => the query succeeds");
  if (rc == 0) {
    unsigned dset = 0, pset = 0; int olen = -1;
    for (int j = 0; j < N; j++) {
      if (out[j] == -1) { olen = j; break; }
      __CPROVER_assert(0 <= out[j] && out[j] < N, "C06: every returned index lies in 0..k+m-1");
      if (!(0 <= out[j] && out[j] < N)) break;
      __CPROVER_assert(!(((dset | (pset << K)) >> out[j]) & 1u), "C06: returned indexes are distinct");
      __CPROVER_assert(!(((rmask | xmask) >> out[j]) & 1u), "C06: the answer contains none of the requested or excluded indexes");
      if (out[j] < K) dset |= 1u << out[j]; else pset |= 1u << (out[j] - K);
    }
    __CPROVER_assert(olen >= 0, "C06: the answer is -1 terminated within k+m entries");
    if (olen >= 0)
      for (int i = 0; i < LMAX; i++) if (i < nr) {
        unsigned r = rowof(r0[i]); int ok = 0;
        for (unsigned s = pset;; s = (s - 1) & pset) {   /* SUBMASK: every subset s of the returned parities */
          unsigned x = r;
          for (int j = 0; j < M; j++) if ((s >> j) & 1u) x ^= g_row[j];
          if ((x & ~dset) == 0) ok = 1;
          if (s == 0) break;
        }
        __CPROVER_assert(ok, "C06: every requested fragment can be rebuilt from the returned fragments alone (row in their GF(2) span)");
      }
  }
  for (int i = 0; i <= LMAX; i++) __CPROVER_assert(in_r[i] == r0[i] && in_x[i] == x0[i], "C15: the request and exclude lists are not modified");
  free(out);
  return rc;
}

#ifdef VERIF_CBMC
void harness(void)
#else
int main(int argc, char **argv)
#endif
{
  struct ec_backend_args a;
  a.uargs.k = K; a.uargs.m = M; a.uargs.hd = HD;
  desc = flat_xor_hd_op_stubs.init(&a, NULL);
  __CPROVER_assert(desc != NULL, "flat_xor_hd_init.ensures: supported shape accepted");
  for (int j = 0; j < M; j++) g_row[j] = spec_xor_row(K, M, HD, j);
  int seq[4] = {-1, -1, -1, -1};
#ifndef VERIF_CBMC
  /* replay one request: argv = len nr i0 i1 .. */
  int len = argc > 1 ? atoi(argv[1]) : 0, nr = argc > 2 ? atoi(argv[2]) : 0;
  if (len < 1 || len > 4 || len > LMAX || nr < 1 || nr > len || argc < 3 + len) { printf("usage: len nr idx...\n"); return 0; }
  for (int i = 0; i < len; i++) { seq[i] = atoi(argv[3 + i]); if (seq[i] < 0 || seq[i] >= N) { printf("index out of range\n"); return 0; } }
  int rc = check_request(seq, len, nr);
  printf("request R=first %d of [%d %d %d %d] X=rest: rc=%d\n", nr, seq[0], seq[1], seq[2], seq[3], rc);
  if (!g_bad) printf("not reproduced: the real planner meets the postcondition for this request\n");
  return g_bad;
#else
  int nsucc = 0, nfail = 0;
#ifdef SYM
  /* EVERY request, by a complete case split over its SHAPE: length len in LMIN..LMAX, split point nr (R = first nr, X = rest)
     and the data/parity type of every position (bit p of t: position p names a parity).  Inside a case the indexes are
     SYMBOLIC (any pairwise distinct indexes of the given types, any order), so all list lengths and every -1 position the
     planner looks at are fixed while the table lookups are not. */
  for (int len = LMIN; len <= LMAX; len++)
    for (int nr = 1; nr <= len; nr++)
      for (unsigned t = 0; t < (1u << len); t++) {
        for (int p = 0; p < 4; p++) seq[p] = -1;
        for (int p = 0; p < len; p++) {
          seq[p] = nondet_int();
          if ((t >> p) & 1u) __CPROVER_assume(K <= seq[p] && seq[p] < N); else __CPROVER_assume(0 <= seq[p] && seq[p] < K);
          for (int q = 0; q < p; q++) __CPROVER_assume(seq[q] != seq[p]);
        }
        if (check_request(seq, len, nr) == 0) nsucc++; else nfail++;
      }
#else
  /* EVERY request: all sequences of LMIN..LMAX pairwise distinct indexes whose first element lies in [E0LO,E0HI]
     and second element (-1 = none) in [E1LO,E1HI] (ORDERED: the planner's answer depends on list order), and every split
     point R|X.  A run is kept to <= ~70 requests: CBMC's symbolic execution time grows quadratically with the number of
     planner calls in one run (measured 12 s / 51 s / 174 s for 69 / 138 / 276 requests).  With SORTED only increasing
     (SORTED == 2: only decreasing) sequences are taken (bounded variants for requests beyond tolerance). */
#ifndef E0LO
#define E0LO 0
#define E0HI (N - 1)
#endif
#ifndef E1LO
#define E1LO (-1)
#define E1HI (N - 1)
#endif
  for (int i0 = E0LO; i0 <= E0HI; i0++)
    for (int i1 = E1LO; i1 <= (LMAX >= 2 ? E1HI : -1); i1++)
      for (int i2 = -1; i2 <= ((LMAX >= 3 && i1 >= 0) ? N - 1 : -1); i2++)
        for (int i3 = -1; i3 <= ((LMAX >= 4 && i2 >= 0) ? N - 1 : -1); i3++) {
          seq[0] = i0; seq[1] = i1; seq[2] = i2; seq[3] = i3;       /* -1 = absent; absent entries only at the end */
          int len = 1 + (i1 >= 0) + (i2 >= 0) + (i3 >= 0);
          if (len < LMIN || len > LMAX) continue;
          int dup = 0;
          for (int x = 0; x < len; x++) for (int y = x + 1; y < len; y++) if (seq[x] == seq[y]) dup = 1;
          if (dup) continue;
#ifdef SORTED
#if SORTED == 2   /* decreasing sequences: the mirror-image order of the SORTED == 1 variant */
          int sorted = 1; for (int x = 0; x + 1 < len; x++) if (seq[x] < seq[x + 1]) sorted = 0;
#else
          int sorted = 1; for (int x = 0; x + 1 < len; x++) if (seq[x] > seq[x + 1]) sorted = 0;
#endif
          if (!sorted) continue;
#endif
          for (int nr = 1; nr <= len; nr++) { if (check_request(seq, len, nr) == 0) nsucc++; else nfail++; }
        }
#endif
#if LMIN < HD
  __CPROVER_assert(nsucc > 0, "vacuity: at least one request was planned");
  if (nsucc > 0) CANARY("planner succeeds");
#endif
  __CPROVER_assert(flat_xor_hd_op_stubs.exit(desc) == 0, "flat_xor_hd_exit.ensures: success");
#ifdef POOL
  { extern int pool_live; __CPROVER_assert(pool_live == 0, "C16: everything the planner and the backend allocated has been released"); }
#endif
  CANARY("harness end");
#endif
}

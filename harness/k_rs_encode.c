/* L2: liberasurecode_rs_vand_encode against the contract of region_dot_product:
 * parity_r word g_w == XOR_j GFAPPLY(data_j word, G[(k+r)k+j]) for every r, every word, every
 * blocksize (even), every generator; one shape (K,M) per run (case split; k,m symbolic ran out of memory); data not written. */
#include "common.h"
#include <stdlib.h>
#include "gf_uf.h"
int liberasurecode_rs_vand_encode(int *generator_matrix, char **data, char **parity, int k, int m, int blocksize);
int g_t;
#define g_w (g_t / 2)
#define NMAX (K + M)
static int G[NMAX * K];
void harness(void)
{
  int in_k = K, in_m = M, in_bs = nondet_int();
  __CPROVER_assume(in_bs >= 2 && in_bs % 2 == 0);
  g_t = nondet_int();   /* ghost index: arbitrary (globals are zero-initialised unless assigned) */
  __CPROVER_assume(0 <= g_t && g_t < in_bs);
  char *data[NMAX], *parity[NMAX];
  uint16_t d0[NMAX];
  for (int i = 0; i < NMAX * K; i++) { G[i] = nondet_int(); __CPROVER_assume(0 <= G[i] && G[i] < 65536); }
  for (int i = 0; i < NMAX; i++) { data[i] = malloc(in_bs); parity[i] = malloc(in_bs); d0[i] = ((uint16_t *)data[i])[g_w]; }
  int rc = liberasurecode_rs_vand_encode(G, data, parity, in_k, in_m, in_bs);
  __CPROVER_assert(rc == 0, "liberasurecode_rs_vand_encode.ensures: returns 0");
  int r = nondet_int(); __CPROVER_assume(0 <= r && r < in_m);
  uint16_t expect = 0;
  for (int j = 0; j < NMAX; j++) if (j < in_k) expect ^= GFAPPLY(d0[j], G[(in_k + r) * in_k + j]);
  __CPROVER_assert(((uint16_t *)parity[r])[g_w] == expect,
                   "liberasurecode_rs_vand_encode.ensures: parity_r word == XOR_j G[k+r][j] * data_j word");
  int j = nondet_int(); __CPROVER_assume(0 <= j && j < in_k);
  __CPROVER_assert(((uint16_t *)data[j])[g_w] == d0[j], "liberasurecode_rs_vand_encode.ensures: data buffers unchanged");
  CANARY("encode returns");
}

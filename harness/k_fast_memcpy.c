/* L1: fast_memcpy (xor_code.c) is memcpy: dst[g_t] == src[g_t], frame dst[0..size) */
#include "common.h"
void fast_memcpy(char *dst, char *src, int size);
int g_t;
void c_fast_memcpy(char *dst, char *src, int size)
__CPROVER_requires(size >= 0 && size <= 2147483647)
__CPROVER_requires(0 <= g_t && (size == 0 || g_t < size))
__CPROVER_requires(__CPROVER_is_fresh(dst, size))
__CPROVER_requires(__CPROVER_is_fresh(src, size))
__CPROVER_assigns(__CPROVER_object_upto(dst, size))
__CPROVER_ensures(size > 0 ==> dst[g_t] == src[g_t])
;
void harness(void)
{
  char *a, *b; int in_bs = nondet_int();
  fast_memcpy(a, b, in_bs);
  CANARY("fast_memcpy returns");
}

/* C05 tables.
 *  MODE 1  whitelist: init_xor_hd_code(k,m,hd) for symbolic (k,m,hd) in the box [-1,33]^2 x [0,7]:
 *          non-NULL exactly on the 38 supported shapes; descriptor fields and code pointers set; all table lookups in bounds
 *  MODE 2  one table (K,M,HD): data-side == parity-side equations, == golden snapshot, minimum distance >= HD */
#include "common.h"
#include <stdlib.h>
#include "xor_code.h"
#include "xor_golden.h"
int xor_hd_decode(xor_code_t *code_desc, char **data, char **parity, int *missing_idxs, int blocksize, int decode_parity);
int xor_hd_fragments_needed(xor_code_t *code_desc, int *fragments_to_reconstruct, int *fragments_to_exclude, int *fragments_needed);
static int popc(unsigned x) { int c = 0; for (int i = 0; i < 32; i++) c += (x >> i) & 1u; return c; }
void harness(void)
{
#if MODE == 1
  int in_k = nondet_int(), in_m = nondet_int(), in_hd = nondet_int();
  __CPROVER_assume(-1 <= in_k && in_k <= 33 && -1 <= in_m && in_m <= 33 && 0 <= in_hd && in_hd <= 7);
  xor_code_t *c = init_xor_hd_code(in_k, in_m, in_hd);
  __CPROVER_assert((c != NULL) == (spec_xor_supported(in_k, in_m, in_hd) != 0), "C05/C13: a flat-XOR code is created exactly for the 38 supported (k,m,hd)");
  if (c) {
    __CPROVER_assert(c->k == in_k && c->m == in_m && c->hd == in_hd, "init_xor_hd_code.ensures: descriptor carries k, m, hd");
    __CPROVER_assert(c->parity_bms != NULL && c->data_bms != NULL, "init_xor_hd_code.ensures: both equation tables present");
    __CPROVER_assert(c->decode == xor_hd_decode && c->encode == xor_code_encode && c->fragments_needed == xor_hd_fragments_needed, "init_xor_hd_code.ensures: code entry points set");
    __CPROVER_assert(__CPROVER_r_ok(c->parity_bms, sizeof(unsigned) * in_m) && __CPROVER_r_ok(c->data_bms, sizeof(unsigned) * in_k), "init_xor_hd_code.ensures: tables have m resp. k entries");
    CANARY("a supported shape exists");
    free(c);
  } else CANARY("an unsupported shape exists");
#else
  xor_code_t *c = init_xor_hd_code(K, M, HD);
  __CPROVER_assert(c != NULL, "C05: the supported shape is created");
  for (int i = 0; i < K; i++) {
    __CPROVER_assert(c->data_bms[i] == spec_xor_col(K, M, HD, i), "C05: data-side table == golden equations (bit-stable)");
    for (int j = 0; j < M; j++)
      __CPROVER_assert(((c->parity_bms[j] >> i) & 1u) == ((c->data_bms[i] >> j) & 1u), "C05: data-side and parity-side tables describe the same equations");
  }
  for (int j = 0; j < M; j++) {
    __CPROVER_assert(c->parity_bms[j] == spec_xor_row(K, M, HD, j), "C05: parity-side table == golden equations (bit-stable)");
    __CPROVER_assert(c->parity_bms[j] < (1u << K), "C05: parity equations mention data columns only");
  }
  /* minimum distance: every non-zero data word of weight w < HD yields >= HD - w non-zero parities */
  unsigned in_s = nondet_uint();
  __CPROVER_assume(in_s != 0 && in_s < (1u << K) && popc(in_s) < HD);
  int pw = 0;
  for (int j = 0; j < M; j++) pw += popc(c->parity_bms[j] & in_s) & 1;
  __CPROVER_assert(popc(in_s) + pw >= HD, "C05: minimum distance of the code >= hd");
  free(c);
  CANARY("table checked");
#endif
}

/* C07 (field writers, layout), C10 (checksum writer):
 *  MODE 1  add_fragment_metadata (src/erasurecode_postprocessing.c) with the real set_* helpers and
 *          set_checksum (src/erasurecode_helpers.c) on a symbolic 80-byte header: every byte of the
 *          result equals the independently serialised header; nothing written when the magic is not native.
 *  MODE 2  layout constants of the real headers + every getter of erasurecode_helpers.c.
 *  MODE 3  alloc_fragment_buffer / alloc_zeroed_buffer / alloc_and_set_buffer / get_aligned_buffer16.
 * Callees by contract: crc32, liberasurecode_crc32_alt (ghost results keyed by (pointer,length)),
 * getenv (NULL or any NUL-terminated string of <= 2 chars), ops->get_backend_metadata_size (ghost). */
#include "common.h"
#include <string.h>
#include <stdlib.h>
#include <stddef.h>
#include "frag.h"
#include "erasurecode.h"
#include "erasurecode_backend.h"
#include "erasurecode_helpers.h"
#include "erasurecode_helpers_ext.h"
void add_fragment_metadata(ec_backend_t be, char *fragment, int idx, uint64_t orig_data_size, int blocksize, ec_checksum_type_t ct, int add_chksum);
static unsigned char in_hdr[80];
uint32_t g_mstd, g_mleg, g_pstd, g_pleg;
int g_bs; uint32_t g_bemeta; int g_env_null; char in_env[3];
static struct ec_backend g_inst;
unsigned long crc32(unsigned long crc, const unsigned char *p, unsigned len)
{
  if (p == in_hdr) { __CPROVER_assert(crc == 0 && len == 59, "crc32.requires/C07: metadata CRC over exactly bytes 0..58"); return g_mstd; }
  __CPROVER_assert(crc == 0 && p == in_hdr + 80 && len == (unsigned)g_bs, "crc32.requires/C10: payload CRC over exactly blocksize bytes at offset 80");
  return g_pstd;
}
int liberasurecode_crc32_alt(int crc, const void *p, size_t len)
{
  if (p == (const void *)in_hdr) { __CPROVER_assert(crc == 0 && len == 59, "crc32_alt.requires/C07: metadata CRC over exactly bytes 0..58"); return (int)g_mleg; }
  __CPROVER_assert(crc == 0 && p == (const void *)(in_hdr + 80) && len == (size_t)g_bs, "crc32_alt.requires/C10: payload CRC over exactly blocksize bytes at offset 80");
  return (int)g_pleg;
}
char *getenv(const char *name)
{
  __CPROVER_assert(name[0] == 'L' && name[15] == 'W' && name[21] == 'L' && name[28] == 'C' && name[30] == 'C' && name[31] == '\0', "getenv.requires: the legacy-CRC switch LIBERASURECODE_WRITE_LEGACY_CRC");
  return g_env_null ? NULL : in_env;
}
static size_t st_meta(void *desc, int bs) { __CPROVER_assert(bs == g_bs, "get_backend_metadata_size.requires: blocksize of the fragment"); return g_bemeta; }
static struct ec_backend_op_stubs st_ops = { .get_backend_metadata_size = st_meta };
static void w32(unsigned char *h, int off, uint32_t v) { h[off] = v; h[off + 1] = v >> 8; h[off + 2] = v >> 16; h[off + 3] = v >> 24; }
void harness(void)
{
#if MODE == 1
  for (int i = 0; i < 80; i++) in_hdr[i] = nondet_uchar();
  g_mstd = nondet_u32(); g_mleg = nondet_u32(); g_pstd = nondet_u32(); g_pleg = nondet_u32();
  g_bemeta = nondet_u32(); g_env_null = nondet_bool(); in_env[0] = nondet_uchar(); in_env[1] = nondet_uchar(); in_env[2] = 0;
  int in_idx = nondet_int(), in_ct = nondet_int(), in_add = nondet_int(), in_id = nondet_int();
  uint32_t in_ver = nondet_u32(); uint64_t in_orig = nondet_u64();
  g_bs = nondet_int();
  __CPROVER_assume(g_bs >= 0 && in_orig <= 0x7fffffffu);   /* lengths up to 2^31-1 (the helpers take int) */
  __CPROVER_assume(0 <= in_id && in_id < EC_BACKENDS_MAX);
  __CPROVER_assume(in_ct >= 0 && in_ct < 256);
  g_inst.common.id = in_id; g_inst.common.ec_backend_version = in_ver; g_inst.common.ops = &st_ops;
  unsigned char want[80]; memcpy(want, in_hdr, 80);
  int native = spec_le32(in_hdr, SPEC_OFF_MAGIC) == SPEC_MAGIC;
  int legacy = !g_env_null && !(in_env[0] == '\0' || (in_env[0] == '0' && in_env[1] == '\0'));
  if (native) {
    w32(want, SPEC_OFF_LIBVER, SPEC_LIBVER);
    w32(want, SPEC_OFF_IDX, (uint32_t)in_idx);
    w32(want, SPEC_OFF_ORIG, (uint32_t)in_orig); w32(want, SPEC_OFF_ORIG + 4, 0);
    w32(want, SPEC_OFF_SIZE, (uint32_t)g_bs);
    want[SPEC_OFF_BEID] = (unsigned char)in_id;
    w32(want, SPEC_OFF_BEVER, in_ver);
    w32(want, SPEC_OFF_BEMETA, g_bemeta);
    if (in_add) {
      want[SPEC_OFF_CT] = (unsigned char)in_ct; want[SPEC_OFF_MISMATCH] = 0;
      if (in_ct == SPEC_CT_CRC32) w32(want, SPEC_OFF_CHKSUM, legacy ? g_pleg : g_pstd);
    }
    w32(want, SPEC_OFF_METACRC, legacy ? g_mleg : g_mstd);
  }
  add_fragment_metadata(&g_inst, (char *)in_hdr, in_idx, in_orig, g_bs, (ec_checksum_type_t)in_ct, in_add);
  for (int i = 0; i < 80; i++)
    __CPROVER_assert(in_hdr[i] == want[i], "C07/C10: every header byte equals the independently serialised header (fields little-endian at the fixed offsets, checksum by the env switch, rest untouched)");
  if (native && legacy && in_add && in_ct == SPEC_CT_CRC32) CANARY("legacy CRC written");
  if (native && !legacy) CANARY("standard CRC written");
  if (!native) CANARY("non-native magic: nothing written");
#elif MODE == 2
  __CPROVER_assert(sizeof(fragment_header_t) == 80, "C07: sizeof(fragment header) == 80");
  __CPROVER_assert(sizeof(fragment_metadata_t) == 59, "C07: sizeof(fragment metadata) == 59");
  __CPROVER_assert(offsetof(fragment_header_t, meta) == 0 && offsetof(fragment_metadata_t, idx) == SPEC_OFF_IDX &&
                   offsetof(fragment_metadata_t, size) == SPEC_OFF_SIZE && offsetof(fragment_metadata_t, frag_backend_metadata_size) == SPEC_OFF_BEMETA &&
                   offsetof(fragment_metadata_t, orig_data_size) == SPEC_OFF_ORIG && offsetof(fragment_metadata_t, chksum_type) == SPEC_OFF_CT &&
                   offsetof(fragment_metadata_t, chksum) == SPEC_OFF_CHKSUM && offsetof(fragment_metadata_t, chksum_mismatch) == SPEC_OFF_MISMATCH &&
                   offsetof(fragment_metadata_t, backend_id) == SPEC_OFF_BEID && offsetof(fragment_metadata_t, backend_version) == SPEC_OFF_BEVER,
                   "C07: metadata field offsets 0/4/8/12/20/21/53/54/55");
  __CPROVER_assert(offsetof(fragment_header_t, magic) == SPEC_OFF_MAGIC && offsetof(fragment_header_t, libec_version) == SPEC_OFF_LIBVER &&
                   offsetof(fragment_header_t, metadata_chksum) == SPEC_OFF_METACRC && offsetof(fragment_header_t, aligned_padding) == SPEC_OFF_PAD,
                   "C07: header field offsets 59/63/67/71");
  __CPROVER_assert(LIBERASURECODE_FRAG_HEADER_MAGIC == SPEC_MAGIC, "C07: magic 0x0b0c5ecc");
  __CPROVER_assert(LIBERASURECODE_VERSION == SPEC_LIBVER, "C07: library version constant is the pinned 1.6.4");
  __CPROVER_assert(CHKSUM_NONE == SPEC_CT_NONE && CHKSUM_CRC32 == SPEC_CT_CRC32 && CHKSUM_MD5 == SPEC_CT_MD5, "C07: checksum type codes");
  for (int i = 0; i < 80; i++) in_hdr[i] = nondet_uchar();
  unsigned char copy[80]; memcpy(copy, in_hdr, 80);
  int native = spec_le32(in_hdr, SPEC_OFF_MAGIC) == SPEC_MAGIC;
  char *f = (char *)in_hdr;
  __CPROVER_assert(get_fragment_idx(f) == (native ? (int)spec_le32(copy, SPEC_OFF_IDX) : -1), "getter: index, -1 unless the magic is native");
  __CPROVER_assert(get_fragment_payload_size(f) == (native ? (int)spec_le32(copy, SPEC_OFF_SIZE) : -1), "getter: payload size");
  __CPROVER_assert(get_fragment_backend_metadata_size(f) == (native ? (int)spec_le32(copy, SPEC_OFF_BEMETA) : -1), "getter: backend metadata size");
  __CPROVER_assert(get_orig_data_size(f) == (native ? (int)spec_le32(copy, SPEC_OFF_ORIG) : -1), "getter: original data size (low 32 bits)");
  uint32_t ver = 77; int r = get_libec_version(f, &ver);
  __CPROVER_assert(native ? (r == 0 && ver == spec_le32(copy, SPEC_OFF_LIBVER)) : (r == -1 && ver == 77), "getter: library version");
  uint32_t bver = 77; r = get_backend_version(f, &bver);
  __CPROVER_assert(native ? (r == 0 && bver == spec_le32(copy, SPEC_OFF_BEVER)) : (r == -1 && bver == 77), "getter: backend version");
  ec_backend_id_t id = 77; r = get_backend_id(f, &id);
  __CPROVER_assert(native ? (r == 0 && id == copy[SPEC_OFF_BEID]) : (r == -1 && id == 77), "getter: backend id");
  __CPROVER_assert(get_data_ptr_from_fragment(f) == f + 80, "payload starts at offset 80");
  __CPROVER_assert(get_fragment_ptr_from_data_novalidate(f + 80) == f, "fragment starts 80 bytes before the payload");
  __CPROVER_assert(get_fragment_ptr_from_data(f + 80) == (native ? f : NULL), "fragment pointer from payload pointer, NULL unless the magic is native");
  for (int i = 0; i < 80; i++) __CPROVER_assert(in_hdr[i] == copy[i], "C15: getters do not modify the fragment");
  CANARY("getters return");
#else
  int in_size = nondet_int(); __CPROVER_assume(0 <= in_size && in_size <= 1 << 20);
  int in_val = nondet_int();
  int t = nondet_int();
  char *a = alloc_and_set_buffer(in_size, in_val);
  __CPROVER_assert(a != NULL && __CPROVER_rw_ok(a, in_size), "alloc_and_set_buffer.ensures: fresh buffer of size bytes");
  if (0 <= t && t < in_size) __CPROVER_assert(a[t] == (char)in_val, "alloc_and_set_buffer.ensures: every byte == value");
  char *z = alloc_zeroed_buffer(in_size);
  __CPROVER_assert(z != NULL && __CPROVER_rw_ok(z, in_size), "alloc_zeroed_buffer.ensures: fresh buffer of size bytes");
  if (0 <= t && t < in_size) __CPROVER_assert(z[t] == 0, "alloc_zeroed_buffer.ensures: all zero");
  char *b = alloc_fragment_buffer(in_size);
  __CPROVER_assert(b != NULL && __CPROVER_rw_ok(b, in_size + 80), "alloc_fragment_buffer.ensures: fresh buffer of size+80 bytes");
  __CPROVER_assert(spec_le32((unsigned char *)b, SPEC_OFF_MAGIC) == SPEC_MAGIC, "alloc_fragment_buffer.ensures/C07: magic 0x0b0c5ecc at offset 59");
  if (0 <= t && t < in_size + 80 && (t < 59 || t >= 63)) __CPROVER_assert(b[t] == 0, "alloc_fragment_buffer.ensures/C07: every other byte zero (padding 71..79 included)");
  __CPROVER_assert(free_fragment_buffer(b + 80) == 0, "free_fragment_buffer.ensures: releases a fragment buffer given its payload pointer");
  __CPROVER_assert(free_fragment_buffer(NULL) == -1, "free_fragment_buffer.ensures: NULL refused");
  __CPROVER_assert(check_and_free_buffer(a) == NULL && check_and_free_buffer(z) == NULL && check_and_free_buffer(NULL) == NULL, "check_and_free_buffer.ensures: returns NULL");
  CANARY("allocators return");
#endif
}

/* C05 / C01-C03 (flat-XOR backend implements the backend-ops interface contract), one table (K,M,HD) per run.
 * Real code: flat_xor_hd_init/encode/decode/reconstruct (src/backends/xor/flat_xor_hd.c), init_xor_hd_code,
 * xor_code_encode, xor_hd_decode, decode_one/two/three_data, selective_encode, get_missing_data/parity,
 * index_of_connected_parity, num_missing_data_in_parity, remove_from_missing_list, get_failure_pattern,
 * xor_reconstruct_one (src/builtin/xor_codes).  xor_bufs_and_store / fast_memcpy by contract.
 * Data symbolic at the ghost byte g_t, blocksize symbolic; stripe relation taken from the GOLDEN equations.
 *   MODE 3 encode   MODE 4 decode   MODE 5 reconstruct
 *   erasure sets with EMIN <= |E| <= EMAX: enumerated concretely (EMAX <= 3; complete) or, with SYMBOLIC, one symbolic set.
 *   |E| < HD must succeed exactly; HD <= |E| <= M (what the front end still lets through): error or exact, never wrong bytes (C02) */
#include "common.h"
#include <stdlib.h>
#include "erasurecode.h"
#include "erasurecode_backend.h"
#include "xor_golden.h"
extern struct ec_backend_op_stubs flat_xor_hd_op_stubs;
#ifdef CELL
extern int g_bs;          /* ghost-cell model (stub_xor_cell.c): buffers are 1-byte cells = byte g_t of the real buffer */
extern char *g_cells; extern int g_ncells; extern unsigned g_wmask;
#define BUFSZ 1
#define g_t 0
#else
int g_t;
#define BUFSZ in_bs
#endif
#define N (K + M)
static int popc(unsigned x) { int c = 0; for (int i = 0; i < 32; i++) c += (x >> i) & 1u; return c; }
void harness(void)
{
  struct ec_backend_args a;
  a.uargs.k = K; a.uargs.m = M; a.uargs.hd = HD;
  void *desc = flat_xor_hd_op_stubs.init(&a, NULL);
  __CPROVER_assert(desc != NULL, "flat_xor_hd_init.ensures: supported shape accepted");
  __CPROVER_assert(a.uargs.w == 32, "flat_xor_hd_init.ensures: word size 32 reported back");
  __CPROVER_assert(flat_xor_hd_op_stubs.element_size(desc) == 32, "flat_xor_hd element_size == w (C08)");
  int in_bs = nondet_int();
  __CPROVER_assume(in_bs >= 1);
#ifdef CELL
  g_bs = in_bs;
#else
  g_t = nondet_int(); __CPROVER_assume(0 <= g_t && g_t < in_bs);
#endif
  char d[K], p[M];
  char *data[K], *parity[M];
  for (int i = 0; i < K; i++) d[i] = nondet_uchar();
  for (int j = 0; j < M; j++) { p[j] = 0; for (int i = 0; i < K; i++) if ((spec_xor_row(K, M, HD, j) >> i) & 1u) p[j] ^= d[i]; }
#if MODE == 3
  for (int i = 0; i < K; i++) { data[i] = malloc(BUFSZ); data[i][g_t] = d[i]; }
  for (int j = 0; j < M; j++) { parity[j] = malloc(BUFSZ); parity[j][g_t] = 0; }   /* the front end hands zeroed parity buffers */
  int rc = flat_xor_hd_op_stubs.encode(desc, data, parity, in_bs);
  __CPROVER_assert(rc == 0, "flat_xor_hd_encode.ensures: success");
  for (int j = 0; j < M; j++) __CPROVER_assert(parity[j][g_t] == p[j], "C05: every parity fragment is exactly the XOR of the data fragments its equation names");
  for (int i = 0; i < K; i++) __CPROVER_assert(data[i][g_t] == d[i], "C15: encode does not modify the data");
#else
#ifdef SYMBOLIC
  /* erasure set symbolic with EMIN <= |E| <= EMAX */
  unsigned in_miss = nondet_uint();
  __CPROVER_assume(in_miss < (1u << N));
  __CPROVER_assume(popc(in_miss) >= EMIN && popc(in_miss) <= EMAX);
  {
#else
  /* every erasure set with EMIN <= |E| <= EMAX (EMAX <= 3), enumerated: e0 < e1 < e2, -1 = absent */
#ifndef E0LO
#define E0LO (-1)
#define E0HI (N - 1)
#endif
  for (int e0 = E0LO; e0 <= E0HI; e0++) for (int e1 = (e0 < 0 ? -1 : e0 + 1); e1 < N; e1++) for (int e2 = (e1 < 0 ? -1 : e1 + 1); e2 < N; e2++) {
    if (e0 < 0 && (e1 >= 0 || e2 >= 0)) continue;       /* canonical: absent entries last */
    if (e1 < 0 && e2 >= 0) continue;
    if (e0 >= 0 && e1 >= 0 && e1 <= e0) continue;
    if (e1 >= 0 && e2 >= 0 && e2 <= e1) continue;
    unsigned in_miss = (e0 >= 0 ? 1u << e0 : 0) | (e1 >= 0 ? 1u << e1 : 0) | (e2 >= 0 ? 1u << e2 : 0);
    if (popc(in_miss) < EMIN || popc(in_miss) > EMAX) continue;
#endif
    int nmiss = popc(in_miss);
#ifdef CELL
    static char cells[N];                                 /* one cell per stripe buffer, reused for every set */
    g_cells = cells; g_ncells = N; g_wmask = in_miss;      /* the operation may write the missing buffers only (C15) */
    for (int i = 0; i < K; i++) data[i] = &cells[i];
    for (int j = 0; j < M; j++) parity[j] = &cells[K + j];
#else
    /* fresh buffers for every set: keeps the symbolic memory of one case independent of the others */
    for (int i = 0; i < K; i++) data[i] = malloc(BUFSZ);
    for (int j = 0; j < M; j++) parity[j] = malloc(BUFSZ);
#endif
    int missing[N + 1], q = 0;
    for (int i = 0; i < N; i++) if (in_miss & (1u << i)) missing[q++] = i;     /* strictly increasing, as the front end builds it */
    for (int i = q; i <= N; i++) missing[i] = -1;
    for (int i = 0; i < K; i++) data[i][g_t] = (in_miss & (1u << i)) ? 0 : d[i];          /* missing buffers arrive zeroed */
    for (int j = 0; j < M; j++) parity[j][g_t] = (in_miss & (1u << (K + j))) ? 0 : p[j];
#if MODE == 4
    int rc = flat_xor_hd_op_stubs.decode(desc, data, parity, missing, in_bs);
    __CPROVER_assert(rc <= 0, "decode.ensures: 0 or negative");
    if (nmiss < HD) {
      __CPROVER_assert(rc == 0, "C05/C01: every erasure set of fewer than hd fragments is decoded (success)");
      for (int j = 0; j < M; j++) __CPROVER_assert(parity[j][g_t] == p[j], "C05: decode restores every parity fragment exactly");
    }
    if (rc == 0) for (int i = 0; i < K; i++) __CPROVER_assert(data[i][g_t] == d[i], "C02/C05: success implies every data fragment equals the original");
#else
#ifdef SYMBOLIC
    int in_dest = nondet_int();
    __CPROVER_assume(0 <= in_dest && in_dest < N && (in_miss & (1u << in_dest)));
    {
#else
    for (int qq = 0; qq < nmiss; qq++) {
      int in_dest = missing[qq];
      if (qq > 0) {   /* fresh pre-state for the next destination */
        for (int i = 0; i < K; i++) data[i][g_t] = (in_miss & (1u << i)) ? 0 : d[i];
        for (int j = 0; j < M; j++) parity[j][g_t] = (in_miss & (1u << (K + j))) ? 0 : p[j];
      }
#endif
      int rc = flat_xor_hd_op_stubs.reconstruct(desc, data, parity, missing, in_dest, in_bs);
      __CPROVER_assert(rc <= 0, "reconstruct.ensures: 0 or negative");
      if (nmiss < HD) __CPROVER_assert(rc == 0, "C05/C03: reconstruct succeeds within tolerance");
      if (rc == 0) __CPROVER_assert((in_dest < K ? data[in_dest][g_t] : parity[in_dest - K][g_t]) == (in_dest < K ? d[in_dest] : p[in_dest - K]),
                                    "C02/C03: success implies the reconstructed fragment equals the original");
      for (int i = 0; i < N; i++) if (!(in_miss & (1u << i)))
        __CPROVER_assert((i < K ? data[i][g_t] : parity[i - K][g_t]) == (i < K ? d[i] : p[i - K]), "C15: available fragments are not modified by reconstruct");
    }
#endif
#ifndef CELL
    for (int i = 0; i < K; i++) free(data[i]);
    for (int j = 0; j < M; j++) free(parity[j]);
#endif
  }
#endif
  __CPROVER_assert(flat_xor_hd_op_stubs.exit(desc) == 0, "flat_xor_hd_exit.ensures: success");
  CANARY("harness end");
}

/* C09 (consumer), C10 (reader), C11: liberasurecode_get_fragment_metadata (src/erasurecode.c) on a
 * fully symbolic 80-byte header.  Callees by contract: is_invalid_fragment_header (its C09 contract,
 * enforced by hdr.is_invalid_fragment_header), crc32 / liberasurecode_crc32_alt on the payload
 * (ghost results, arguments asserted to be exactly (fragment+80, size)).
 * TWIN=1: the same query on a native header and on its opposite-endian twin (C11). */
#include "common.h"
#include <string.h>
#include "frag.h"
#include "erasurecode.h"
static unsigned char in_hdr[80];
#define buf in_hdr
uint32_t g_mstd, g_mleg;          /* CRCs of the 59 metadata bytes (standard / historical) */
uint32_t g_pstd, g_pleg;          /* CRCs of the payload */
static uint32_t g_size;                  /* payload size the header declares (in its own byte order) */
static int g_paycrc_calls;
int is_invalid_fragment_header(fragment_header_t *h)
{
  __CPROVER_assert((unsigned char *)h == buf, "is_invalid_fragment_header.requires: the fragment's header");
  return !spec_hdr_accept(buf, g_mstd, g_mleg);
}
unsigned long crc32(unsigned long crc, const unsigned char *p, unsigned len)
{ __CPROVER_assert(crc == 0 && p == buf + 80 && len == g_size, "crc32.requires/C10: payload CRC over exactly size bytes at offset 80");
  g_paycrc_calls++; return g_pstd; }
int liberasurecode_crc32_alt(int crc, const void *p, size_t len)
{ __CPROVER_assert(crc == 0 && p == (const void *)(buf + 80) && len == g_size, "liberasurecode_crc32_alt.requires/C10: payload CRC over exactly size bytes at offset 80");
  return (int)g_pleg; }

struct md { uint32_t idx, size, bemeta; uint64_t orig; uint8_t ct; uint32_t chk[8]; uint8_t mism, beid; uint32_t bever; };
static void spec_decode(const unsigned char *h, int order, struct md *o)
{
  o->idx = spec_rd32(h, SPEC_OFF_IDX, order); o->size = spec_rd32(h, SPEC_OFF_SIZE, order);
  o->bemeta = spec_rd32(h, SPEC_OFF_BEMETA, order); o->orig = spec_rd64(h, SPEC_OFF_ORIG, order);
  o->ct = h[SPEC_OFF_CT];
  for (int i = 0; i < 8; i++) o->chk[i] = spec_rd32(h, SPEC_OFF_CHKSUM + 4 * i, order);
  o->mism = h[SPEC_OFF_MISMATCH]; o->beid = h[SPEC_OFF_BEID]; o->bever = spec_rd32(h, SPEC_OFF_BEVER, order);
}
static void same(const fragment_metadata_t *m, const struct md *e)
{
  __CPROVER_assert(m->idx == e->idx, "C11/C07: idx decoded in the header's byte order");
  __CPROVER_assert(m->size == e->size, "C11/C07: size decoded in the header's byte order");
  __CPROVER_assert(m->frag_backend_metadata_size == e->bemeta, "C11/C07: backend metadata size decoded");
  __CPROVER_assert(m->orig_data_size == e->orig, "C11/C07: orig_data_size decoded");
  __CPROVER_assert(m->chksum_type == e->ct, "C11: checksum type (a single byte) is the same for either byte order");
  for (int i = 0; i < 8; i++) __CPROVER_assert(m->chksum[i] == e->chk[i], "C11/C07: checksum words decoded");
  __CPROVER_assert(m->backend_id == e->beid, "C11/C07: backend id");
  __CPROVER_assert(m->backend_version == e->bever, "C11/C07: backend version decoded");
}
static int run_one(fragment_metadata_t *out, struct md *e, int *accepted)
{
  unsigned char copy[80];
  memcpy(copy, buf, 80);
  int order = spec_hdr_order(buf);
  g_size = order >= 0 ? spec_rd32(buf, SPEC_OFF_SIZE, order) : 0;
  int rc = liberasurecode_get_fragment_metadata((char *)buf, out);
  *accepted = spec_hdr_accept(copy, g_mstd, g_mleg);
  for (int i = 0; i < 80; i++) __CPROVER_assert(buf[i] == copy[i], "C09/C15: the metadata query does not modify the fragment");
  if (!*accepted) {
    __CPROVER_assert(rc == -EBADHEADER, "C09: an unacceptable header makes the metadata query fail with the bad-header error");
    return rc;
  }
  __CPROVER_assert(rc == 0, "C09: an acceptable header is accepted by the metadata query");
  spec_decode(copy, order, e);
  same(out, e);
  if (e->ct == SPEC_CT_CRC32)
    __CPROVER_assert(out->chksum_mismatch == (e->chk[0] != g_pstd && e->chk[0] != g_pleg),
                     "C10: mismatch reported iff the payload CRC differs from the stored value under both the standard and the historical CRC-32");
  else
    __CPROVER_assert(out->chksum_mismatch == e->mism, "C10: without a CRC32 checksum the stored mismatch flag is passed through");
  return rc;
}
void harness(void)
{
  fragment_metadata_t out; struct md e; int acc;
  for (int i = 0; i < 80; i++) buf[i] = nondet_uchar();
  g_mstd = nondet_u32(); g_mleg = nondet_u32(); g_pstd = nondet_u32(); g_pleg = nondet_u32();
#ifndef TWIN
  int which = nondet_int();
  if (which == 0) {
    int rc = liberasurecode_get_fragment_metadata(NULL, &out);
    __CPROVER_assert(rc == -EINVALIDPARAMS, "C13: NULL fragment refused");
  } else if (which == 1) {
    int rc = liberasurecode_get_fragment_metadata((char *)buf, NULL);
    __CPROVER_assert(rc == -EINVALIDPARAMS, "C13: NULL metadata pointer refused");
  } else {
    int rc = run_one(&out, &e, &acc);
    if (rc == 0 && e.ct == SPEC_CT_CRC32 && out.chksum_mismatch) CANARY("a CRC32 mismatch is reported");
    if (rc == 0 && spec_hdr_order(buf) == 1) CANARY("an opposite-endian header is accepted");
    if (rc != 0) CANARY("a header is rejected");
  }
#else
  /* native header h (accepted), then its opposite-endian twin h': every multi-byte field byte-reversed,
     single-byte fields in place, stored metadata CRC = the twin's own CRC (ghost), same payload CRCs */
  __CPROVER_assume(spec_hdr_order(buf) == 0);
  fragment_metadata_t out2; struct md e2; int acc2;
  unsigned char h[80]; memcpy(h, buf, 80);
  int rc1 = run_one(&out, &e, &acc);
  __CPROVER_assume(acc);
  static const int f4[] = {0, 4, 8, 21, 25, 29, 33, 37, 41, 45, 49, 55, 59, 63, 67};
  for (int f = 0; f < 15; f++) for (int b = 0; b < 4; b++) buf[f4[f] + b] = h[f4[f] + 3 - b];
  for (int b = 0; b < 8; b++) buf[12 + b] = h[12 + 7 - b];
  /* the twin was sealed by its writer: stored CRC == CRC of the twin's own metadata bytes
     (for writers >= 1.2.0; older headers carry no CRC) */
  uint32_t twin_std = nondet_u32(), twin_leg = nondet_u32();
  g_mstd = twin_std; g_mleg = twin_leg;
  if (spec_le32(h, SPEC_OFF_LIBVER) >= SPEC_VERSION(1, 2, 0)) {
    uint32_t stored = nondet_bool() ? twin_std : twin_leg;
    buf[67] = stored >> 24; buf[68] = stored >> 16; buf[69] = stored >> 8; buf[70] = stored;
  }
  int rc2 = run_one(&out2, &e2, &acc2);
  __CPROVER_assert(rc1 == 0 && rc2 == 0, "C11: header validation gives the same verdict for the opposite-endian twin");
  __CPROVER_assert(out2.idx == out.idx && out2.size == out.size && out2.frag_backend_metadata_size == out.frag_backend_metadata_size
                   && out2.orig_data_size == out.orig_data_size, "C11: index, sizes and original length equal for the twin");
  __CPROVER_assert(out2.chksum_type == out.chksum_type, "C11: checksum type equal for the twin");
  for (int i = 0; i < 8; i++) __CPROVER_assert(out2.chksum[i] == out.chksum[i], "C11: checksum equal for the twin");
  __CPROVER_assert(out2.backend_id == out.backend_id && out2.backend_version == out.backend_version, "C11: backend id and version equal for the twin");
  __CPROVER_assert(out2.chksum_mismatch == out.chksum_mismatch, "C11: payload checksum mismatches are detected equally on the twin");
  CANARY("twin compared");
#endif
}

/* Environment outside /repo, assumed contracts (DESIGN.md §4): logging has no effect on library
 * state, rwlock calls succeed (sequential semantics). */
#include <stdarg.h>
#include <pthread.h>
void syslog(int p, const char *f, ...) {}
void openlog(const char *i, int o, int f) {}
void closelog(void) {}
int pthread_rwlock_wrlock(pthread_rwlock_t *l) { return 0; }
int pthread_rwlock_rdlock(pthread_rwlock_t *l) { return 0; }
int pthread_rwlock_unlock(pthread_rwlock_t *l) { return 0; }
